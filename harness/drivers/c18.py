"""C18 - build options select exactly the molecules and residues they name.

spec/Select.tla   P-layer (SelMols, SelRes, SpecMols/SpecRes, PBlocks, LigValid, HandedOK) and I-layer (SplitMolecule, ParseLine,
                  Finalize, FindStart, AnnotateSpec, Connect, Engine, SamplePers, SetRestraints, Build, SplitLigands)
spec/MC_Select    instance families + deviation flags, spec/SelExport (S->I export), spec/SelTrace (judge of observations)
S->I : every case of the families is exported by TLC with the end state of the intended I-layer (shown to satisfy the P-layer in the
       same run), rendered to a real .top, a real .bld and real option strings, run through the real parser / split_residue /
       load_build_files / find_starting_node_from_spec / AnnotateLigands / set_restraints / split_ligands and compared; a stratified
       subset additionally through the complete gen_coords (worker processes, hard timeout).
I->S : seeded random topologies / build files / option strings beyond the bound through the same real code; every record
       (abstract input, observed selection) is judged by TLC evaluating the P-layer (SelTrace); binding demonstration included.
Nothing in this file decides a selection: Python renders, runs, projects and compares for equality; every verdict on an
observation that is not literally the exported I-layer state comes from TLC.
"""
import json
import multiprocessing as mp
import os
import random
import time
import traceback
from pathlib import Path

import contextlib
import io

import numpy as np

from .. import common as c

with contextlib.redirect_stdout(io.StringIO()):      # polyply prints a numba hint on import; import once, before any fork
    import polyply  # noqa: F401

PROP = "C18"
# known-finding signature -> deviation flag of Select.tla that models it.  Only findings that are OPEN have an entry: an observation
# can be classified as a known finding only through this table (and only while known_findings.d lists the signature as known).
SIG_FLAG = {
    "start-index-ignores-molname": "startIdxIgnoresName",
}
# Repaired in /repo (known_findings.jsonl F12, F22-F26): the flags stay in Select.tla as sensitivity runs TLC must refute, they are never
# switched on for the tree, so a returning defect is rejected by the P-layer and no I-layer-with-deviation state can excuse it -> VIOLATION.
REPAIRED_FLAGS = {"ligNoTemplate": "F12", "startNoMolKeyError": "F22", "molRawRange": "F23", "rwLastWins": "F24", "splitLosesBuild": "F25",
                  "ligIdxIgnoresName": "F26"}
FLAG_SIG = {v: k for k, v in SIG_FLAG.items()}
ALL_FLAGS = ["breakAtFirstBeyond", "closedRes", "closedMol", "resnameIgnored", "molNameIgnored", "splitDrop", "rwLastWins", "molRawRange",
             "startIdxIgnoresName", "startNoMolKeyError", "startNameIgnored", "ligIdxIgnoresName", "ligNoTemplate", "splitLosesBuild"]
VOLS = {"W": 0.40, "V": 0.45, "RA": 0.50, "RB": 0.55, "RC": 0.52, "X": 0.43, "Y": 0.47}
FULL_TIMEOUT = 90


# ------------------------------------------------------------------ rendering: abstract input -> real files / strings

def spec_str(sp):
    s = (sp["mol"] if sp["hasMol"] else "") + ("#%d" % sp["idx"] if sp["hasIdx"] else "")
    if sp["hasRn"] or sp["hasId"]:
        s += "-" + (sp["rn"] if sp["hasRn"] else "") + ("#%d" % sp["id"] if sp["hasId"] else "")
    return s


def split_str(s, variant=0):
    parts = list(s["parts"])
    if variant & 1:
        parts = parts[::-1]
    return ":".join([s["rn"]] + ["%s-%s" % (p["nn"], ",".join(p["atoms"][::-1] if variant & 2 else p["atoms"])) for p in parts])


def render_top(case, variant=0):
    L = ["; C18 case", "[ defaults ]", "1 2 no 1.0 1.0", "[ atomtypes ]", "P 72.0 0.0 A 0.47 4.0"]
    for name, T in case["types"].items():
        if name not in case["mols"] and not (variant & 4):     # an unused molecule type may or may not be listed
            continue
        L += ["[ moleculetype ]", "%s 1" % name, "[ atoms ]"]
        g = 0
        for r in T:
            for an in r["atoms"]:
                g += 1
                L.append("%d P %d %s %s %d 0.0 72" % (g, r["id"], r["rn"], an, g))
        if g > 1:
            L.append("[ bonds ]")
            L += ["%d %d 1 0.47 100" % (i, i + 1) for i in range(1, g)]
    L += ["[ system ]", "c18", "[ molecules ]"]
    mols = case["mols"]
    if variant & 1:                         # consecutive molecules of one type as one line with a count
        i = 0
        while i < len(mols):
            j = i
            while j + 1 < len(mols) and mols[j + 1] == mols[i]:
                j += 1
            L.append("%s %d" % (mols[i], j - i + 1))
            i = j + 1
    else:
        L += ["%s 1" % m for m in mols]
    return "\n".join(L) + "\n"


GEOM = ["sphere", "cylinder", "rectangle"]


def render_bld(case, variant=0, full=False):
    """build file text; the tag of a residue directive is carried by a number the parser stores verbatim
    (geometry: x of the reference point; rw_restriction: length of the normal vector; distance / persistence: the value)."""
    L = []
    prev = None
    for ln in case["bld"]:
        k = ln["k"]
        if k == "mol":
            L += ["[ molecule ]", "%s %d %d" % (ln["name"], ln["lo"], ln["hi"])]
            if variant & 2:
                L.append("; block")
            prev = None
            continue
        if k == "geom":
            g = GEOM[(ln["tag"] + variant) % 3]
            sec = g
            extra = {"sphere": "1000.0", "cylinder": "1000.0 1000.0", "rectangle": "1000.0 1000.0 1000.0"}[g]
            body = "%s %d %d in %d.0 0.0 0.0 %s" % (ln["name"], ln["lo"], ln["hi"], ln["tag"], extra)
        elif k == "rw":
            sec = "rw_restriction"
            body = "%s %d %d 0.0 0.0 %d.0 180.0" % (ln["name"], ln["lo"], ln["hi"], ln["tag"])
        elif k == "dist":
            sec = "distance_restraints"
            body = "%d %d %d.0" % (ln["lo"], ln["hi"], ln["tag"])
        else:
            sec = "persistence_length"
            body = "WCM %d.0 %d %d" % (ln["tag"], ln["lo"], ln["hi"])
        if not (prev == sec and (variant & 4)):       # consecutive lines of one kind share a section or get their own
            L.append("[ %s ]" % sec)
        L.append(body)
        prev = sec
    if case["vols"]:
        L.append("[ volumes ]")
        L += ["%s %.2f" % (rn, VOLS.get(rn, 0.5)) for rn in case["vols"]]
    return "\n".join(L) + "\n"


def case_variant(case):
    return sum(ord(ch) for ch in json.dumps(case, sort_keys=True)) % 8


# ------------------------------------------------------------------ projection: real objects -> abstract state

def default_obs(case):
    n = len(case["mols"])
    return {"err": "", "ran": [], "parsed": True, "nodes": [[] for _ in range(n)], "geom": [[] for _ in range(n)], "rw": [[] for _ in range(n)],
            "dtags": [[] for _ in range(n)], "start": [0] * n, "was": [[] for _ in range(n)], "handed": [], "after": [[] for _ in range(n)],
            "first": [0] * n, "stepok": [], "gro": [[] for _ in range(n)], "raw": {}}


def shape_defaults(case, obs):
    """fields of phases that did not run keep their initial value: no tag on any residue"""
    if "bld" not in obs["ran"]:
        shape = obs["nodes"] if "split" in obs["ran"] else [case["types"][n] for n in case["mols"]]
        obs["geom"] = [[[] for _ in m] for m in shape]
        obs["rw"] = [[[] for _ in m] for m in shape]


def proj_nodes(top):
    out = []
    for mol in top.molecules:
        out.append([{"rn": d["resname"], "id": int(d["resid"]), "atoms": sorted(int(a) + 1 for a in d["graph"].nodes),
                     "build": bool(d.get("build", False)) and bool(d.get("backmap", False))}
                    for _, d in mol.nodes(data=True) if "ligated" not in d])
    return out


def proj_tags(top):
    geom, rw = [], []
    for mol in top.molecules:
        geom.append([[int(round(float(p[1][0]))) for p in d.get("restraints", [])] for _, d in mol.nodes(data=True) if "ligated" not in d])
        rw.append([[int(round(float(np.linalg.norm(p[0])))) for p in d.get("rw_options", [])] for _, d in mol.nodes(data=True) if "ligated" not in d])
    return geom, rw


def base_keys(mol):
    return [k for k, d in mol.nodes(data=True) if "ligated" not in d]


def proj_added(top):
    was = []
    for i, mol in enumerate(top.molecules):
        keys = base_keys(mol)
        cur = []
        for k, d in mol.nodes(data=True):
            if "ligated" not in d:
                continue
            nb = list(mol.neighbors(k))
            lm, lnode = d["ligated"]
            cur.append({"host": keys.index(nb[0]) + 1 if len(nb) == 1 and nb[0] in keys else 0, "lm": int(lm),
                        "ln": base_keys(top.molecules[lm]).index(lnode) + 1, "rn": d["resname"], "tmpl": "template" in d, "pos": 0})
        was.append(cur)
    return was


def parse_check(case):
    """ParseSpec: the real parser must return exactly the fields that were written."""
    from polyply.src.annotate_ligands import parse_residue_spec
    specs = list(case["start"]) + [x for lg in case["lig"] for x in (lg["h"], lg["l"])]
    for sp in specs:
        out = parse_residue_spec(spec_str(sp))
        rec = {"hasMol": "molname" in out, "mol": out.get("molname", ""), "hasIdx": "mol_idx" in out, "idx": out.get("mol_idx", 0),
               "hasRn": "resname" in out, "rn": out.get("resname", ""), "hasId": "resid" in out,
               "id": int(out["resid"]) if "resid" in out and float(out["resid"]) == int(out["resid"]) else out.get("resid", 0)}
        if rec != sp:
            return False
    return True


class SetRestraintRecorder:
    """records set_distance_restraint(molecule, target, ref, distance, ...) calls (restraints and persistence namespaces)"""

    def __init__(self, stub_numeric):
        import polyply.src.restraints as R
        import polyply.src.persistence as PS
        self.R, self.PS = R, PS
        self.calls = []
        self.saved = [(R, "set_distance_restraint", R.set_distance_restraint), (PS, "set_distance_restraint", PS.set_distance_restraint)]
        orig = R.set_distance_restraint

        def rec(molecule, target_node, ref_node, distance, avg_step_length, tolerance):
            r = orig(molecule, target_node, ref_node, distance, avg_step_length, tolerance)
            self.calls.append((id(molecule), int(round(float(distance)))))
            return r
        R.set_distance_restraint = rec
        PS.set_distance_restraint = rec
        if stub_numeric:      # the numbers (step length, sampled end-to-end distance) are C07's; here only who gets a restraint
            self.saved += [(R, "compute_avg_step_length", R.compute_avg_step_length), (PS, "compute_avg_step_length", PS.compute_avg_step_length),
                           (PS, "generate_end_end_distances", PS.generate_end_end_distances)]
            R.compute_avg_step_length = lambda *a, **k: (1.0, 1.0)
            PS.compute_avg_step_length = lambda *a, **k: (1.0, 1.0)
            PS.generate_end_end_distances = lambda specs, *a, **k: np.full(len(specs.mol_idxs), float(specs.lp))

    def tags(self, top):
        ids = {id(m): i for i, m in enumerate(top.molecules)}
        out = [[] for _ in top.molecules]
        for mid, tag in self.calls:
            out[ids[mid]].append(tag)
        # cross-check with the node attribute the random walk reads
        for i, m in enumerate(top.molecules):
            has = any("distance_restraints" in d for _, d in m.nodes(data=True))
            if has != bool(out[i]):
                out[i].append(-1)
        return out

    def close(self):
        for mod, name, val in self.saved:
            setattr(mod, name, val)


class _Box:
    boxsize = np.array([50.0, 50.0, 50.0])


# ------------------------------------------------------------------ running the real code, phase by phase

def write_inputs(case, wd, full=False):
    wd = Path(wd)
    wd.mkdir(parents=True, exist_ok=True)
    v = case_variant(case)
    (wd / "sys.top").write_text(render_top(case, v))
    bld = []
    if case["bld"] or case["vols"]:
        (wd / "opts.bld").write_text(render_bld(case, v, full))
        bld = [wd / "opts.bld"]
    start = [spec_str(s) for s in case["start"]]
    ligs = [(spec_str(l["h"]) + ":" + spec_str(l["l"])).split(":") for l in case["lig"]]      # the CLI's type=lambda s: s.split(':')
    split = [split_str(s, v) for s in case["split"]]
    return wd / "sys.top", bld, start, ligs, split


def run_cheap(case, wd):
    """The real parser / split_residue / load_build_files / find_starting_node_from_spec / AnnotateLigands / restraint setters /
    split_ligands in the order of gen_coords; GenerateTemplates and BuildSystem are replaced by their abstract effect
    (template key on every node; a position token on every ligated node)."""
    from polyply.src.topology import Topology
    from polyply.src.load_library import load_build_files
    from polyply.src.gen_coords import find_starting_node_from_spec
    from polyply.src.annotate_ligands import AnnotateLigands
    from polyply.src.meta_molecule import _find_starting_node
    import polyply.src.restraints as R
    import polyply.src.persistence as PS
    obs = default_obs(case)
    toppath, bld, start, ligs, split = write_inputs(case, wd)
    phase = "parse"
    rec = None
    try:
        obs["parsed"] = parse_check(case)
        phase = "top"
        top = Topology.from_gmx_topfile(name="c18", path=toppath)
        top.preprocess()
        phase = "split"
        if split:
            for mol in top.molecules:
                mol.split_residue(split)
        obs["nodes"] = proj_nodes(top)
        obs["ran"].append("split")
        phase = "bld"
        load_build_files(top, None, bld)
        obs["geom"], obs["rw"] = proj_tags(top)
        obs["ran"].append("bld")
        phase = "start"
        sd = find_starting_node_from_spec(top, start)
        obs["start"] = [0 if sd.get(i) is None else base_keys(m).index(sd[i]) + 1 for i, m in enumerate(top.molecules)]
        obs["ran"].append("start")
        # abstract GenerateTemplates: every node carries a template key and that key has a volume
        for mol in top.molecules:
            for _, d in mol.nodes(data=True):
                d["template"] = "T:" + d["resname"]
                top.volumes.setdefault("T:" + d["resname"], 0.5)
        phase = "lig"
        ann = AnnotateLigands(top, ligs)
        ann.run_system(top)
        obs["was"] = proj_added(top)
        obs["ran"].append("lig")
        phase = "engine"        # what NonBondEngine.from_topology looks up
        for mol in top.molecules:
            for _, d in mol.nodes(data=True):
                top.volumes[d.get("template", d["resname"])]
        rec = SetRestraintRecorder(stub_numeric=True)
        phase = "pers"
        PS.sample_end_to_end_distances(top, _Box())
        phase = "restr"
        R.set_restraints(top, _Box())
        obs["dtags"] = rec.tags(top)
        obs["ran"].append("restr")
        phase = "build"         # what RandomWalk._random_walk reads, then the abstract effect of BuildSystem on ligated nodes
        for i, mol in enumerate(top.molecules):
            first = sd[i] if sd[i] else _find_starting_node(mol)
            mol.root = first
            for _, cur in list(mol.search_tree.edges):
                mol.nodes[cur]["build"]
        for i, mol in enumerate(top.molecules):
            j = 0
            for k, d in mol.nodes(data=True):
                if "ligated" in d:
                    j += 1
                    d["position"] = np.array([100.0 * (i + 1) + j, 0.0, 0.0])
                    obs["was"][i][j - 1]["pos"] = 100 * (i + 1) + j
        phase = "hand"
        nmol = len(top.molecules)
        ann.split_ligands()
        if len(top.molecules) != nmol:
            raise RuntimeError("molecule list changed")
        obs["handed"] = [{"lm": i, "ln": n + 1, "pos": int(round(float(d["position"][0])))}
                         for i, mol in enumerate(top.molecules) for n, (k, d) in enumerate(mol.nodes(data=True)) if "position" in d]
        obs["after"] = proj_nodes(top)
        if any("ligated" in d for mol in top.molecules for _, d in mol.nodes(data=True)):
            obs["after"] = [[] for _ in top.molecules]
        obs["ran"].append("hand")
        phase = "backmap"       # what Backmap reads
        for mol in top.molecules:
            for k in mol.nodes:
                mol.nodes[k]["backmap"]
    except Exception as exc:      # the code under test raised: recorded, judged by the specification
        obs["err"] = "%s:%s" % (phase, type(exc).__name__)
        obs["raw"]["exception"] = "%s: %s" % (type(exc).__name__, str(exc)[:300])
        if phase in ("pers", "restr"):
            obs["dtags"] = [[] for _ in case["mols"]]
    finally:
        if rec:
            rec.close()
    shape_defaults(case, obs)
    return obs


def min_image(d, box):
    d = np.asarray(d, float)
    box = np.asarray(box, float)
    return d - box * np.round(d / box)


def read_gro_residues(path, case):
    lines = Path(path).read_text().splitlines()
    nat = int(lines[1])
    atoms = [(int(l[0:5]), l[5:10].strip(), l[10:15].strip()) for l in lines[2:2 + nat]]
    out, p = [], 0
    for name in case["mols"]:
        n = sum(len(r["atoms"]) for r in case["types"][name])
        grp = {}
        for g, (rid, rn, an) in enumerate(atoms[p:p + n]):
            grp.setdefault((rid, rn), []).append(g + 1)
        out.append([{"rn": rn, "id": rid, "atoms": a, "build": True} for (rid, rn), a in grp.items()])
        p += n
    if p != nat:
        out.append([{"rn": "?", "id": -1, "atoms": [], "build": True}])
    return out


def run_full(case, wd, seed=0):
    """the complete gen_coords with observers wrapped around public functions (installed here, removed afterwards)"""
    import polyply.src.gen_coords as gc
    import polyply.src.build_system as bs
    import polyply.src.nonbond_engine as nbm
    from polyply.src.annotate_ligands import AnnotateLigands
    from polyply.src.meta_molecule import MetaMolecule
    obs = default_obs(case)
    toppath, bld, start, ligs, split = write_inputs(case, wd, full=True)
    out = Path(wd) / "out.gro"
    if out.exists():
        out.unlink()
    st = {"phase": "top", "top": None, "first": {}, "eng": None}
    saved = []

    def patch(obj, name, new):
        saved.append((obj, name, getattr(obj, name)))
        setattr(obj, name, new)
    o_split = MetaMolecule.split_residue
    o_load, o_find = gc.load_build_files, gc.find_starting_node_from_spec
    o_init, o_run, o_sl = AnnotateLigands.__init__, AnnotateLigands.run_system, AnnotateLigands.split_ligands
    o_pers, o_restr = bs.sample_end_to_end_distances, bs.set_restraints
    o_add = nbm.NonBondEngine.add_positions
    o_from = nbm.NonBondEngine.from_topology.__func__
    rec = SetRestraintRecorder(stub_numeric=False)

    def w_split(self, strings):
        st["phase"] = "split"
        return o_split(self, strings)

    def w_load(topology, lib, build):
        st["top"] = topology
        obs["nodes"] = proj_nodes(topology)
        obs["ran"].append("split")
        st["phase"] = "bld"
        r = o_load(topology, lib, build)
        obs["geom"], obs["rw"] = proj_tags(topology)
        obs["ran"].append("bld")
        st["phase"] = "start"
        return r

    def w_find(topology, specs):
        sd = o_find(topology, specs)
        obs["start"] = [0 if sd.get(i) is None else base_keys(m).index(sd[i]) + 1 for i, m in enumerate(topology.molecules)]
        obs["ran"].append("start")
        st["phase"] = "templates"
        return sd

    def w_init(self, topology, ligands):
        st["phase"] = "lig"
        return o_init(self, topology, ligands)

    def w_run(self, system):
        r = o_run(self, system)
        obs["was"] = proj_added(st["top"])
        obs["ran"].append("lig")
        st["phase"] = "engine"
        return r

    def w_from(cls, molecules, topology, box, ignore=()):
        e = o_from(cls, molecules, topology, box, ignore=ignore)
        st["eng"] = e
        return e

    def w_pers(topology, nb, *a, **k):
        st["phase"] = "pers"
        r = o_pers(topology, nb, *a, **k)
        st["phase"] = "restr"
        return r

    def w_restr(topology, nb):
        st["phase"] = "restr"
        r = o_restr(topology, nb)
        obs["dtags"] = rec.tags(topology)
        obs["ran"].append("restr")
        st["phase"] = "build"
        return r

    def w_add(self, point, mol_idx, node_key, start=True):
        if start and mol_idx not in st["first"]:
            st["first"][mol_idx] = node_key
        return o_add(self, point, mol_idx, node_key, start=start)

    def w_sl(self):
        st["phase"] = "hand"
        top = self.topology
        eng = st["eng"]
        box = np.asarray(eng.boxsize, float)
        pos = {}
        for i, mol in enumerate(top.molecules):
            j = 0
            for k, d in mol.nodes(data=True):
                if "ligated" not in d:
                    continue
                j += 1
                tok = 100 * (i + 1) + j
                obs["was"][i][j - 1]["pos"] = tok if "position" in d and np.all(np.isfinite(d["position"])) else 0
                pos[tok] = np.array(d["position"], float)
                host = list(mol.neighbors(k))[0]
                hd = mol.nodes[host]
                dist = float(np.linalg.norm(min_image(pos[tok] - np.asarray(hd["position"], float), box)))
                vh = float(top.volumes[hd.get("template", hd["resname"])])
                vl = float(top.volumes[d.get("template", d["resname"])])
                ok = abs(dist - 0.5 * (vh + vl)) < 1e-6
                # a user volume is the number written in the build file
                for rn, v in ((hd["resname"], vh), (d["resname"], vl)):
                    if rn in case["vols"] and abs(v - VOLS.get(rn, 0.5)) > 1e-9:
                        ok = False
                obs["stepok"].append(bool(ok))
                obs["raw"].setdefault("lig_steps", []).append({"mol": i, "dist_min_image": dist, "vol_host": vh, "vol_ligand": vl})
        nmol = len(top.molecules)
        r = o_sl(self)
        if len(top.molecules) != nmol:
            raise RuntimeError("molecule list changed")
        handed = []
        for i, mol in enumerate(top.molecules):
            for n, (k, d) in enumerate(mol.nodes(data=True)):
                if "position" in d:
                    for tok, p in pos.items():
                        if np.array_equal(np.asarray(d["position"], float), p):
                            handed.append({"lm": i, "ln": n + 1, "pos": tok})
        obs["handed"] = handed
        obs["after"] = proj_nodes(top)
        if any("ligated" in d for mol in top.molecules for _, d in mol.nodes(data=True)):
            obs["after"] = [[] for _ in top.molecules]
        obs["ran"].append("hand")
        st["phase"] = "backmap"
        return r

    try:
        obs["parsed"] = parse_check(case)
        patch(MetaMolecule, "split_residue", w_split)
        patch(gc, "load_build_files", w_load)
        patch(gc, "find_starting_node_from_spec", w_find)
        patch(AnnotateLigands, "__init__", w_init)
        patch(AnnotateLigands, "run_system", w_run)
        patch(AnnotateLigands, "split_ligands", w_sl)
        patch(bs, "sample_end_to_end_distances", w_pers)
        patch(bs, "set_restraints", w_restr)
        patch(nbm.NonBondEngine, "add_positions", w_add)
        patch(nbm.NonBondEngine, "from_topology", classmethod(w_from))
        np.random.seed(seed)
        random.seed(seed)
        gc.gen_coords(toppath=toppath, outpath=out, name="c18", build=bld, start=start, ligands=ligs, split=split,
                      box=np.array([6.0, 6.0, 6.0]), maxiter=200)
        top = st["top"]
        obs["first"] = [0 if i not in st["first"] else base_keys(m).index(st["first"][i]) + 1 for i, m in enumerate(top.molecules)]
        st["phase"] = "gro"
        obs["gro"] = read_gro_residues(out, case)
        obs["ran"].append("full")
    except Exception as exc:
        obs["err"] = "%s:%s" % (st["phase"], type(exc).__name__)
        obs["raw"]["exception"] = "%s: %s" % (type(exc).__name__, str(exc)[:300])
        obs["raw"]["where"] = traceback.format_exc(limit=-3)[-600:]
    finally:
        for obj, name, val in reversed(saved):
            setattr(obj, name, val)
        rec.close()
    shape_defaults(case, obs)
    return obs


# ------------------------------------------------------------------ comparison with the exported I-layer state (equality only)

def _st(tags):
    return [[sorted(t) for t in m] for m in tags]


def same_as_exported(obs, x):
    return (obs["parsed"] and obs["err"] == x["err"] and obs["nodes"] == x["nodes"] and _st(obs["geom"]) == _st(x["geom"]) and _st(obs["rw"]) == _st(x["rw"])
            and [sorted(t) for t in obs["dtags"]] == [sorted(t) for t in x["dtags"]] and obs["start"] == x["start"] and obs["was"] == x["was"]
            and sorted(json.dumps(h, sort_keys=True) for h in obs["handed"]) == sorted(json.dumps(h, sort_keys=True) for h in x["handed"])
            and (obs["err"] != "" or "hand" not in obs["ran"] or obs["after"] == x["nodes"]))


def _replay_chunk(arg):
    wd, items = arg
    c.quiet()
    res = []
    for idx, case, x in items:
        try:
            obs = run_cheap(case, Path(wd) / ("p%d" % os.getpid()))
        except Exception as exc:  # harness failure, reported as such
            res.append((idx, None, "harness: %s" % traceback.format_exc(limit=3)))
            continue
        res.append((idx, obs, same_as_exported(obs, x)))
    return res


# ------------------------------------------------------------------ full runs in worker processes with a hard timeout

def _full_child(conn, case, wd, seed):
    c._init_worker()
    c.quiet()
    try:
        conn.send(run_full(case, wd, seed))
    except Exception:
        conn.send({"harness_error": traceback.format_exc(limit=4)})
    conn.close()


def run_full_many(cases, wdroot, seed, nproc):
    """cases: list of (key, case) -> {key: obs | 'timeout' | {'harness_error': ...}}"""
    ctx = mp.get_context("fork")
    todo = list(cases)
    running, out = [], {}
    k = 0
    while todo or running:
        while todo and len(running) < nproc:
            key, case = todo.pop(0)
            a, b = ctx.Pipe(duplex=False)
            k += 1
            p = ctx.Process(target=_full_child, args=(b, case, str(Path(wdroot) / ("f%d" % k)), seed + k))
            p.start()
            b.close()
            running.append((key, p, a, time.time()))
        still = []
        for key, p, a, t0 in running:
            if a.poll(0.01):
                try:
                    out[key] = a.recv()
                except EOFError:
                    out[key] = {"harness_error": "worker died"}
                p.join(5)
            elif not p.is_alive():
                out[key] = {"harness_error": "worker died (exit %s)" % p.exitcode}
            elif time.time() - t0 > FULL_TIMEOUT:
                p.kill()
                p.join(5)
                out[key] = "timeout"
            else:
                still.append((key, p, a, t0))
        running = still
    return out


# ------------------------------------------------------------------ TLC as the judge of observations (SelTrace)

def known_flags(ck):
    return sorted(SIG_FLAG[s] for s in ck._known if s in SIG_FLAG)


def judge(ck, records, name, flags, count=True, chunk=None):
    """records: list of {"c": case, "o": obs}.  Returns per record (1-based tid): 'ok' | 'skip' | ('known', [sigs], why) | ('rejected', why).
    The records are validated in batches by concurrent single-worker TLC runs of SelTrace."""
    if not records:
        return {}
    chunk = chunk or max(40, -(-len(records) // max(1, c.NPROC)))
    wd = c.workdir(PROP, name)
    choices = [[]]
    if flags:
        choices.append(list(flags))
        if len(flags) > 1:
            choices += [[g for g in flags if g != fl] for fl in flags]
    lit = ", ".join("{%s}" % ", ".join('"%s"' % g for g in ch) for ch in choices)
    cfg = wd / "Sel_trace.cfg"
    cfg.write_text("SPECIFICATION TSpec\nCONSTANTS\n DevChoices = {%s}\nINVARIANT Mark\nPOSTCONDITION AllJudged\nCHECK_DEADLOCK FALSE\n" % lit)
    parts = [records[i:i + chunk] for i in range(0, len(records), chunk)]
    jobs = []
    for k, part in enumerate(parts):
        f = wd / ("records_%d.json" % k)
        f.write_text(json.dumps([{"c": r["c"], "o": {a: b for a, b in r["o"].items() if a != "raw"}} for r in part]))
        jobs.append(("SelTrace", cfg, {"workers": 1, "env": {"TRACE_FILE": str(f)}, "check": False, "dfs": True}))
    results = []
    for i in range(0, len(jobs), max(1, c.NPROC)):
        results += c.tlc_many(jobs[i:i + max(1, c.NPROC)])
    verdict = {}
    for k, (part, res) in enumerate(zip(parts, results)):
        off = k * chunk
        acc = res.tagged("ACCEPTED")
        if res.rc != 0 or not acc or res.tagged("UNJUDGED"):
            raise c.MachineryError("SelTrace failed on %s batch %d (rc=%s): %s" % (name, k, res.rc, res.out[-2500:]))
        if count:
            ck.add_tlc(res)
        accepted = set(int(t) for t in acc[0])
        skipped = set(int(r["tid"]) for r in res.tagged("SKIP"))
        runs = {}
        for r in res.tagged("RUN"):
            runs.setdefault(int(r["tid"]), {})[frozenset(r["dev"])] = r
        for tid in range(1, len(part) + 1):
            if tid in skipped:
                verdict[off + tid] = "skip"
            elif tid in accepted:
                verdict[off + tid] = "ok"
            else:
                rr = runs.get(tid, {})
                why = rr.get(frozenset(), {}).get("why", "?")
                # consistency of the model: an observation equal to the intended I-layer state in every compared field cannot fail a
                # P-layer conjunct over those fields ("parse", "hand", "full" also look at fields the I-layer state does not have)
                if rr.get(frozenset(), {}).get("match") and why in ("err", "nodes", "tags", "start", "lig", "restr"):
                    raise c.MachineryError("record %d equals the intended I-layer state but the P-layer rejects it (%s): the model is inconsistent" % (off + tid, why))
                full = rr.get(frozenset(flags)) if flags else None
                if full and full["match"]:
                    need = [fl for fl in flags if len(flags) == 1 or not rr[frozenset(g for g in flags if g != fl)]["match"]]
                    verdict[off + tid] = ("known", [FLAG_SIG[fl] for fl in need], why)
                else:
                    verdict[off + tid] = ("rejected", why)
    return verdict


def report(ck, records, verdict, kind):
    nok = 0
    for tid, v in sorted(verdict.items()):
        r = records[tid - 1]
        if v == "ok":
            nok += 1
        elif v == "skip":
            continue
        elif v[0] == "known":
            for sig in v[1]:
                ck.violation({"kind": kind, "mode": r.get("mode", "cheap"), "case": r["c"], "observed": r["o"], "expected": r.get("x")}, sig=sig,
                             what="known finding %s reproduced (P-layer conjunct %s)" % (sig, v[2]))
            r["known"] = v[1]
        else:
            files = describe(r["c"])
            ck.violation({"kind": kind, "mode": r.get("mode", "cheap"), "case": r["c"], "observed": r["o"], "expected": r.get("x"), "inputs": files},
                         what="%s: the P-layer of Select.tla rejects what the code did (conjunct '%s'); options: %s; observed err=%r start=%s" % (
                             kind, v[1], files["options"], r["o"]["err"], r["o"]["start"]))
    return nok


def describe(case):
    v = case_variant(case)
    return {"top": render_top(case, v), "bld": render_bld(case, v) if case["bld"] or case["vols"] else "",
            "options": {"-start": [spec_str(s) for s in case["start"]], "-lig": [spec_str(l["h"]) + ":" + spec_str(l["l"]) for l in case["lig"]],
                        "-split": [split_str(s, v) for s in case["split"]]}}


# ------------------------------------------------------------------ I -> S: seeded random inputs beyond the bound

def random_case(rng):
    resn = ["RA", "RB", "RC"]
    hostn = rng.sample(["MA", "MB", "MC", "MD"], rng.randint(2, 4))
    types = {}
    for nm in hostn:
        first = rng.choice([1, 1, 2, 3])
        types[nm] = [{"rn": rng.choice(resn), "id": first + k, "atoms": ["a%d" % (j + 1) for j in range(rng.randint(1, 5))]} for k in range(rng.randint(2, 6))]
        if rng.random() < 0.4:       # listing order of the residues independent of their ids (star / graft / capped molecules)
            ids = [r["id"] for r in types[nm]]
            rng.shuffle(ids)
            for r, i_ in zip(types[nm], ids):
                r["id"] = i_
    mols = [rng.choice(hostn) for _ in range(rng.randint(2, 7))]
    use_lig = rng.random() < 0.45
    if use_lig:
        types["LG"] = [{"rn": rn, "id": k + 1, "atoms": ["%s%d" % (rn.lower(), j + 1) for j in range(rng.randint(1, 2))]} for k, rn in enumerate(rng.sample(["W", "V"], rng.randint(1, 2)))]
        for _ in range(rng.randint(1, 4)):
            mols.insert(rng.randint(0, len(mols)), "LG")
    case = {"fam": "random", "mols": mols, "types": types, "split": [], "bld": [], "vols": [], "start": [], "lig": []}
    if rng.random() < 0.3:
        for t, rn in enumerate(rng.sample(resn, rng.randint(1, 2))):
            names = ["a%d" % (j + 1) for j in range(5)]
            # the new residue names come from one pool: different split strings may create the same name
            asg = {a: rng.choice(["", "NA", "NA", "NB", "NC"]) for a in names[:rng.randint(2, 5)]}
            parts = [{"nn": nn, "atoms": rng.sample([a for a in asg if asg[a] == nn], len([a for a in asg if asg[a] == nn]))} for nn in sorted(set(asg.values())) if nn]
            if parts:
                case["split"].append({"rn": rn, "parts": parts})
    allres = sorted({r["rn"] for T in types.values() for r in T} | {p["nn"] for s in case["split"] for p in s["parts"]})
    tag = 0
    rwnames = rng.sample(allres, len(allres))
    nm_ = len(mols)
    hostonly = all(len(types[n]) >= 2 for n in set(mols)) and not case["split"]
    for _ in range(rng.randint(0, 4)):
        lo = rng.randint(0, nm_)
        case["bld"].append({"k": "mol", "name": rng.choice(hostn + ["MX"]), "lo": lo, "hi": rng.choice([lo, lo + 1, rng.randint(0, nm_ + 2), nm_]), "tag": 0})
        for _ in range(rng.randint(1, 3)):
            r = rng.random()
            tag += 1
            lo = rng.randint(0, 6)
            if r < 0.55:
                case["bld"].append({"k": "geom", "name": rng.choice(allres), "lo": lo, "hi": rng.randint(0, 9), "tag": tag})
            elif r < 0.8 and rwnames:
                case["bld"].append({"k": "rw", "name": rwnames.pop(), "lo": lo, "hi": rng.randint(0, 9), "tag": tag})
            elif hostonly:
                case["bld"].append({"k": rng.choice(["dist", "pers"]), "name": "", "lo": 0, "hi": 1, "tag": tag})
    case["vols"] = [rn for rn in ("W", "V") if use_lig and rn in allres and rng.random() < 0.5]

    def spec_from(m, n, pat, nodes=None):
        T = types[mols[m]]
        r = T[n]
        return {"hasMol": bool(pat & 1), "mol": mols[m] if pat & 1 else "", "hasIdx": bool(pat & 2), "idx": m if pat & 2 else 0,
                "hasRn": bool(pat & 4), "rn": r["rn"] if pat & 4 else "", "hasId": bool(pat & 8), "id": r["id"] if pat & 8 else 0}
    hosts = [i for i, n in enumerate(mols) if n != "LG"]
    if not case["split"]:
        used = set()
        for _ in range(rng.choice([0, 1, 1, 2])):
            m = rng.choice(hosts)
            if mols[m] in used:
                continue
            used.add(mols[m])
            sp = spec_from(m, rng.randrange(len(types[mols[m]])), rng.randrange(16))
            if rng.random() < 0.12 and sp["hasIdx"]:
                sp["hasMol"], sp["mol"] = True, rng.choice(hostn)       # possibly contradictory name#index
            case["start"].append(sp)
        if use_lig:
            ligs = [i for i, n in enumerate(mols) if n == "LG"]
            m = rng.choice(hosts)
            h = spec_from(m, rng.randrange(len(types[mols[m]])), rng.randrange(16) | 4)
            lpat = rng.choice([1, 2, 3, 1, 1])
            lm = rng.choice(ligs)
            l = spec_from(lm, rng.randrange(len(types["LG"])), lpat | rng.choice([0, 4, 8, 12]))
            if rng.random() < 0.1 and l["hasIdx"]:
                l["hasMol"], l["mol"] = True, rng.choice(hostn)
            case["lig"].append({"h": h, "l": l})
    return case


def _random_chunk(arg):
    wd, items = arg
    c.quiet()
    out = []
    for idx, case in items:
        try:
            out.append((idx, run_cheap(case, Path(wd) / ("p%d" % os.getpid()))))
        except Exception:
            out.append((idx, {"harness_error": traceback.format_exc(limit=3)}))
    return out


# ------------------------------------------------------------------ entry points

def _key(case):
    return json.dumps(case, sort_keys=True)


def run(tier):
    ck = c.Check(PROP, tier)
    quick = tier == "quick"
    sd = c.seed()
    rng = random.Random(sd)
    if os.environ.get("C18_NO_KNOWN"):      # development switch: judge as if no finding were recorded as known
        ck._known = {}
    flags = known_flags(ck)
    ck.rule = ("S->I: every case of the families of spec/MC_Select.tla (molecule lists of length 1..%d over 3 names x block header name/lo/hi in 0..5; "
               "residue-name sequences of length 1..4 x directive name/lo/hi; two overlapping/adjacent blocks and residue lines; all 16 omission "
               "patterns of -start / -lig host / -lig ligand specifications x values; every assignment of the atoms of a 2-4 atom residue to "
               "{stay, X, Y}; two split strings creating the same new residue name in both orders on every chain of 3-4 residues; every permutation of the residue ids over the listed residues (3-4) x directive; options addressing split residues) rendered to .top/.bld/option strings and run through the real code; a case is "
               "distinct by its abstract input.  I->S: seeded random inputs beyond the bound (2-11 molecules over 5 names, 2-6 residues over 3+ "
               "names, 1-5 atoms, ranges to 9, several blocks/directives/options) judged by SelTrace" % (4 if quick else 5))
    ck.assumptions = [
        "domain (Select.tla InDomain): distinct new residue names and atoms named once within one split string, one split string per residue name; "
        "a -start/-lig specification finds a residue in every molecule it selects and different -start options name different molecules; no molecule is "
        "host and ligand in one run and different -lig options use different ligand molecules; at most one rw_restriction per residue; node keys of "
        "distance/persistence directives exist in every molecule (their geometry is C07's)",
        "-split renumbers residues from 0 in first-atom order (pinned by the repository's test_split_residue); later options address these ids",
        "the cheap replay path replaces GenerateTemplates/BuildSystem by their abstract effect (template key per node, position token per ligated "
        "node); the stratified full gen_coords runs observe the real ones (first add_positions(start=True) per molecule, ligand step by a numeric "
        "monitor |min-image distance - (vol_host+vol_ligand)/2| < 1e-6, residues of the output .gro)",
        "geometry restraints are rendered with a 1000 nm radius and rw_restriction with a 180 degree cone so that full runs stay feasible; the "
        "numeric content of restraints is not asserted here (C07)",
        "a timed-out gen_coords run is no verdict"]
    # ---------------------------------------------------------------- 1. TLC: I |= P on the families (+ export), deviations refuted
    ck.stage("TLC: families (I |= P, export) and deviation flags, concurrently")
    w = max(2, c.NPROC // 3)
    jobs = [("SelExport", "Sel_export_molq.cfg" if quick else "Sel_export_molf.cfg", {"workers": w, "dfs": True, "timeout": 3000}),
            ("SelExport", "Sel_export_resta.cfg", {"workers": w, "dfs": True, "timeout": 3000}),
            ("SelExport", "Sel_export_restb.cfg", {"workers": w, "dfs": True, "timeout": 3000}),
            ("MC_Select", "Sel_dev.cfg", {"workers": 1, "check": False, "extra": ("-continue",)}),
            ("MC_Select", "Sel_dev_hand.cfg", {"workers": 1, "check": False}),
            ("MC_Select", "Sel_devcases_ok.cfg", {"workers": 1})]
    ex1, ex2, ex3, dev, devh, devok = c.tlc_many(jobs)
    ck.model_must_hold(ex1, "FamilyInDomain/ErrOK/MolListUnchanged/Correct/NodesStable/HandBack/AnnotateOnlyAdds (molecule-list family)")
    ck.model_must_hold(ex2, "FamilyInDomain/ErrOK/MolListUnchanged/Correct/NodesStable/HandBack/AnnotateOnlyAdds (build-file families)")
    ck.model_must_hold(ex3, "FamilyInDomain/ErrOK/MolListUnchanged/Correct/NodesStable/HandBack/AnnotateOnlyAdds (option families)")
    ck.model_must_hold(devok, "sensitivity cases without deviation")
    ck.add_tlc(dev)
    for fl in ALL_FLAGS:
        if "Refute_" + fl not in dev.inv_violated:
            raise c.MachineryError("sensitivity: deviation %s was not refuted by TLC (%s)" % (fl, dev.errors[:2]))
    ck.model_must_refute(devh, "HandBack", "deviation ligWrongMol: position handed to the host molecule")
    ck.extra["deviations_refuted"] = ALL_FLAGS + ["ligWrongMol"]
    ck.extra["deviation_flags_on_for_the_tree"] = flags
    ck.extra["repaired_findings_modelled_as_refuted_flags"] = REPAIRED_FLAGS
    cases = ex1.cases() + ex2.cases() + ex3.cases()
    if len(cases) < 1000:
        raise c.MachineryError("export produced only %d cases" % len(cases))
    acts = {a: 0 for a in ("SplitMolecule", "ParseLine", "Finalize", "FindStart", "AnnotateSpec", "Connect", "Engine", "SamplePers", "SetRestraints",
                           "Build", "SplitLigands", "Backmap")}
    for cs in cases:            # the actions every exported behaviour actually took
        for a in cs["a"]:
            acts[a] = acts.get(a, 0) + 1
    for a, n in acts.items():
        if n == 0:
            raise c.MachineryError("I-layer action %s is never taken in the exported families (vacuous)" % a)
    ck.actions.update(acts)
    ck.extra["cases_by_family"] = {}
    for cs in cases:
        ck.extra["cases_by_family"][cs["c"]["fam"]] = ck.extra["cases_by_family"].get(cs["c"]["fam"], 0) + 1
    # ---------------------------------------------------------------- 2. S->I replay (cheap path)
    ck.extra["cases_exported"] = len(cases)
    if quick:   # quick replays a seeded part of the big families (every case of the small ones), thorough everything
        frac = {"perm": 0.3, "mol": 0.2, "res": 0.25, "mold": 0.25, "lig": 0.3, "multir": 0.4, "multi": 0.5}
        cases = [cs for cs in cases if rng.random() < frac.get(cs["c"]["fam"], 1.0)]
    ck.stage("S->I: replay %d of %d exported cases on the real code" % (len(cases), ck.extra["cases_exported"]))
    wd = c.workdir(PROP, "replay")
    idx = [(i, cs["c"], cs["x"]) for i, cs in enumerate(cases)]
    todo = []
    for part in c.pmap(_replay_chunk, [(str(wd), ch) for ch in c.chunks(idx, c.NPROC * 6)]):
        for i, obs, same in part:
            if obs is None:
                raise c.MachineryError("replay harness failed: %s" % same)
            ck.replayed += 1
            ck.evaluations += 1
            ck.nontrivial.add(_key(cases[i]["c"]))
            if same is not True:
                todo.append({"c": cases[i]["c"], "o": obs, "x": cases[i]["x"]})
    mid = ([cs for cs in cases if cs["c"]["fam"] == "multi" and sum(len(t) for m in cs["x"]["geom"] for t in m) > 3] or cases)[0]
    ck.sample({"S->I case": describe(mid["c"])["options"], "bld": describe(mid["c"])["bld"], "molecules": mid["c"]["mols"],
               "expected end state": {k: mid["x"][k] for k in ("err", "geom", "rw")}})
    lg = ([cs for cs in cases if cs["c"]["fam"] == "lig" and cs["x"]["handed"]] or cases)[0]
    ck.sample({"S->I case": describe(lg["c"])["options"], "molecules": lg["c"]["mols"], "expected end state": {k: lg["x"][k] for k in ("err", "was", "handed")}})
    ck.extra["replay_not_identical_to_intended"] = len(todo)
    ck.stage("judge %d replays that differ from the intended I-layer state" % len(todo))
    v = judge(ck, todo, "judge_replay", flags)
    if any(x == "skip" for x in v.values()):
        raise c.MachineryError("an exported family case is outside InDomain")
    report(ck, todo, v, "S->I replay")
    # ---------------------------------------------------------------- 3. full gen_coords on a stratified subset
    per = {"start": 12, "start2": 4, "lig": 16, "lig2": 3, "split": 8, "split2": 4, "split3": 6, "perm": 4, "permsplit": 4, "combo": 5, "multi": 3, "res": 3, "mol": 3, "multir": 2} if quick else \
          {"start": 60, "start2": 20, "lig": 120, "lig2": 8, "split": 60, "split2": 30, "split3": 40, "perm": 30, "permsplit": 20, "combo": 20, "multi": 30, "res": 30, "mol": 30, "multir": 10}
    byfam = {}
    for cs in cases:
        if any(l["k"] in ("dist", "pers") for l in cs["c"]["bld"]):
            continue
        byfam.setdefault(cs["c"]["fam"], []).append(cs)
    sel = []
    for fam, n in per.items():
        pool = byfam.get(fam, [])
        ok = [cs for cs in pool if not cs["x"]["err"]]
        bad = [cs for cs in pool if cs["x"]["err"]]
        sel += rng.sample(ok, min(len(ok), n)) + rng.sample(bad, min(len(bad), max(1, n // 8)))
    ck.stage("full gen_coords on %d stratified cases (worker processes, %d s timeout)" % (len(sel), FULL_TIMEOUT))
    fwd = c.workdir(PROP, "full")
    res = run_full_many([(i, cs["c"]) for i, cs in enumerate(sel)], fwd, sd, c.NPROC)
    recs, ntime = [], 0
    for i, cs in enumerate(sel):
        o = res.get(i)
        if o == "timeout":
            ntime += 1
            continue
        if not isinstance(o, dict) or "harness_error" in o:
            raise c.MachineryError("full-run harness failed: %s" % (o,))
        recs.append({"c": cs["c"], "o": o, "x": cs["x"], "mode": "full"})
    ck.extra["full_runs"] = {"selected": len(sel), "timed_out": ntime, "judged": len(recs),
                             "ligand_steps_monitored": sum(len(r["o"]["stepok"]) for r in recs)}
    if len(recs) < len(sel) // 2:
        raise c.MachineryError("more than half of the full gen_coords runs timed out")
    v = judge(ck, recs, "judge_full", flags)
    ck.traces += report(ck, recs, v, "full gen_coords run")
    ck.evaluations += len(recs)
    for r in recs:
        if r["o"]["stepok"]:
            ck.sample({"full run -lig": describe(r["c"])["options"]["-lig"], "monitor": r["o"]["raw"].get("lig_steps", [])[:2], "handed": r["o"]["handed"][:2]})
            break
    # ---------------------------------------------------------------- 4. I->S: random inputs beyond the bound
    nrand = 360 if quick else 4000
    ck.stage("I->S: %d seeded random inputs beyond the bound" % nrand)
    rc = [random_case(rng) for _ in range(nrand)]
    rwd = c.workdir(PROP, "random")
    robs = {}
    for part in c.pmap(_random_chunk, [(str(rwd), ch) for ch in c.chunks(list(enumerate(rc)), c.NPROC * 4)]):
        for i, o in part:
            if "harness_error" in o:
                raise c.MachineryError("random driver failed: %s" % o["harness_error"])
            robs[i] = o
    recs = [{"c": rc[i], "o": robs[i]} for i in range(nrand)]
    v = judge(ck, recs, "judge_random", flags)
    rverdict = dict(v)
    nskip = sum(1 for x in v.values() if x == "skip")
    ck.extra["random_inputs"] = {"generated": nrand, "outside_domain_skipped": nskip}
    if nskip > 0.6 * nrand:
        raise c.MachineryError("random generator: %d of %d inputs outside the domain" % (nskip, nrand))
    nok = report(ck, recs, v, "I->S random input")
    ck.traces += nok + sum(1 for x in v.values() if isinstance(x, tuple) and x[0] == "known")
    ck.evaluations += nrand - nskip
    for tid, x in v.items():
        if x != "skip":
            ck.nontrivial.add(_key(recs[tid - 1]["c"]))
    for tid, x in sorted(v.items()):
        if x == "ok" and recs[tid - 1]["c"]["bld"] and recs[tid - 1]["c"]["start"]:
            ck.sample({"I->S record": describe(recs[tid - 1]["c"])["options"], "bld": describe(recs[tid - 1]["c"])["bld"],
                       "observed": {k: recs[tid - 1]["o"][k] for k in ("geom", "rw", "start")}})
            break
    # random full runs (beyond the bound, through the complete program)
    nfr = 12 if quick else 80
    cand = [r for tid, r in enumerate(recs, 1) if v[tid] == "ok" and not any(l["k"] in ("dist", "pers") for l in r["c"]["bld"]) and len(r["c"]["mols"]) <= 7]
    cand = rng.sample(cand, min(len(cand), nfr))
    ck.stage("full gen_coords on %d random inputs" % len(cand))
    res = run_full_many([(i, r["c"]) for i, r in enumerate(cand)], c.workdir(PROP, "full_random"), sd + 1000, c.NPROC)
    frecs = []
    for i, r in enumerate(cand):
        o = res.get(i)
        if o == "timeout":
            ck.extra["full_runs"]["timed_out"] += 1
            continue
        if not isinstance(o, dict) or "harness_error" in o:
            raise c.MachineryError("full-run harness failed: %s" % (o,))
        frecs.append({"c": r["c"], "o": o, "mode": "full"})
    v = judge(ck, frecs, "judge_full_random", flags)
    ck.traces += report(ck, frecs, v, "full gen_coords run (random input)")
    ck.extra["full_runs"]["random_judged"] = len(frecs)
    # ---------------------------------------------------------------- 5. binding demonstration
    ck.stage("binding demonstration")
    good = [r for tid, r in enumerate(recs, 1) if rverdict.get(tid) == "ok" and any(any(t for t in m) for m in r["o"]["geom"]) and "hand" in r["o"]["ran"]][:4]
    if len(good) < 2:
        if not ck.violations:
            raise c.MachineryError("binding demonstration: no suitable record")
        ck.note("binding demonstration skipped: the code under test left no accepted record with a restraint tag")
    else:
        demo = json.loads(json.dumps([{"c": r["c"], "o": r["o"]} for r in good]))
        for m in demo[0]["o"]["geom"]:          # drop one recorded restraint tag
            hit = [t for t in m if t]
            if hit:
                hit[0].pop()
                break
        dv = judge(ck, demo, "binding_demo", flags, count=False)
        if dv[1] == "ok" or dv[1] == "skip" or dv[1][0] != "rejected" or any(dv[t] != "ok" for t in range(2, len(demo) + 1)):
            raise c.MachineryError("binding demonstration failed: %s" % (dv,))
        ck.extra["binding_demo"] = "record with one recorded restraint tag removed rejected by SelTrace (conjunct '%s'), untouched records accepted" % dv[1][1]
    ck.exhaustive = True
    return ck.finish()


def replay(path):
    doc = json.loads(open(path).read())
    case = doc["case"]
    ck = c.Check(PROP, "quick")
    if os.environ.get("C18_NO_KNOWN"):
        ck._known = {}
    wd = c.workdir(PROP, "replay_one")
    if case.get("mode") == "full":
        o = run_full_many([(0, case["case"])], wd, c.seed(), 1)[0]
        if o == "timeout":
            print("replayed: timed out (no verdict)")
            return 0
    else:
        o = run_cheap(case["case"], wd / "p")
    print(json.dumps(describe(case["case"]), indent=1))
    print("observed:", json.dumps({k: v for k, v in o.items()}, default=str)[:3000])
    recs = [{"c": case["case"], "o": o, "mode": case.get("mode", "cheap")}]
    v = judge(ck, recs, "judge_replay_one", known_flags(ck))
    report(ck, recs, v, "replay")
    print("replayed: %s" % ("still violates" if ck.violations else ("matches a known finding" if ck.known else "accepted now")))
    return 1 if ck.violations else 0
