"""C05 - generated residues are one step apart, inside the box, never overlapping.

spec/LatticeWalk.tla : exact lattice instance of the placement geometry (draw index -> direction -> wrapped target site,
                       accepted iff the site is free; start on a grid point), StepOne / InBox / NoOverlap / RootOnGrid.
S->I : every complete lattice behaviour TLC enumerates is scripted into the real BuildSystem/RandomWalk (the random choices
       np.random.randint for the start grid index and random.randint for the vector index are replaced by the scripted ones,
       the vector bundle is the six lattice directions); every computed position and acceptance must equal the specification's.
I->S : (exact) lattice runs with the real random draws validated by LatticeTrace; (monitor) arbitrary real gen_coords runs
       (dense melts, non-cubic boxes, step factors, force limits, branched and cyclic molecules, user grid) where an
       independent monitor recomputes for every accepted placement: minimum-image distance to the predecessor = step factor x
       mean size, inside the box, start on a grid point, >= 0.1 nm from every other residue, soft-sphere force from positioned
       non-neighbours within the cut-off <= limit; WalkTrace requires these booleans on every PlaceOk / PlaceRootOk.
"""
import json
import random
import signal
import tempfile
from pathlib import Path

import numpy as np

from .. import common as c
from .. import walk_util as w
from . import c17

H = 0.5      # lattice spacing = step length = residue size
DIRS = np.array([[1, 0, 0], [-1, 0, 0], [0, 1, 0], [0, -1, 0], [0, 0, 1], [0, 0, -1]], float)
FIX = c.VERIF / "selftest" / "fixtures"


# ------------------------------------------------------------------ geometric monitor (independent of polyply's code)

def monitor_obs(eng, mol, mol_idx, node, prev, step_fudge, max_force, box, grid=None, nrexcl=1):
    gndx = eng.nodes_to_gndx[(mol_idx, node)]
    p = np.asarray(eng.positions[gndx], float)
    obs, raw = {}, {}
    obs["in_box"] = bool(np.all(p >= 0) and np.all(p < box + 1e-12))
    if prev is not None:
        q = np.asarray(eng.positions[eng.nodes_to_gndx[(mol_idx, prev)]], float)
        d = p - q
        d -= box * np.round(d / box)
        sig = eng.interaction_matrix[frozenset([eng.atypes[gndx], eng.atypes[eng.nodes_to_gndx[(mol_idx, prev)]]])][0]
        raw["dist"], raw["step"] = float(np.linalg.norm(d)), float(step_fudge * sig)
        obs["dist_ok"] = bool(abs(raw["dist"] - raw["step"]) <= 1e-6)
    elif grid is not None:
        obs["grid_ok"] = bool(np.any(np.all(np.abs(np.asarray(grid) - p) <= 1e-9, axis=1)))
    # exclusions: graph neighbours of the node within nrexcl bonds (same molecule)
    import networkx as nx
    excl = {eng.nodes_to_gndx[(mol_idx, n)] for n in nx.single_source_shortest_path_length(mol, node, cutoff=nrexcl) if n != node}
    pos = eng.positions
    fin = np.where(np.isfinite(pos[:, 0]))[0]
    fin = fin[fin != gndx]
    force = np.zeros(3)
    mind = np.inf
    if len(fin):
        dd = p - pos[fin]
        dd -= box * np.round(dd / box)
        rr = np.linalg.norm(dd, axis=1)
        mind = float(rr.min())
        for g, dv, r in zip(fin, dd, rr):
            if r <= eng.cut_off and g not in excl:
                sig, eps = eng.interaction_matrix[frozenset([eng.atypes[gndx], eng.atypes[g]])]
                force += 24.0 * eps * (2.0 * sig ** 12 / r ** 13 - sig ** 6 / r ** 7) * dv / r
    raw["min_d"], raw["force"] = (mind if np.isfinite(mind) else -1.0), float(np.linalg.norm(force))
    obs["sep_ok"] = bool(mind >= 0.1)
    obs["force_ok"] = bool(raw["force"] <= max_force * (1 + 1e-9))
    return obs, raw


def make_monitor(step_fudge, max_force, grid_holder):
    def mon(rec, ev):
        if ev["ev"] == "finish":
            # at the end every residue of every molecule has a finite position inside the box (a residue taken back and never regenerated has none)
            eng = rec.engine
            box = np.asarray(eng.boxsize, float)
            bad = []
            for mi, mol in enumerate(rec.topology.molecules):
                for node in mol.nodes:
                    g = eng.nodes_to_gndx.get((mi, node))
                    q = np.asarray(eng.positions[g], float) if g is not None else np.array([np.inf] * 3)
                    if not (np.all(np.isfinite(q)) and np.all(q >= 0) and np.all(q < box + 1e-12)):
                        bad.append([mi, int(node)])
            ev["obs"], ev["raw"] = {"all_positioned_in_box": not bad}, {"unpositioned": bad[:20]}
            return
        if ev["ev"] not in ("ok", "root"):
            return
        mi = ev["mol"] - 1
        mol = rec.topology.molecules[mi]
        node = (ev["cur"] if ev["ev"] == "ok" else ev["node"]) - 1
        prev = ev["prev"] - 1 if ev["ev"] == "ok" else None
        eng = rec.engine
        obs, raw = monitor_obs(eng, mol, mi, node, prev, step_fudge, max_force, np.asarray(eng.boxsize, float), grid_holder.get("grid"))
        ev["obs"], ev["raw"] = obs, raw
    return mon


class _Timeout(BaseException):
    pass


def _alarm(signum, frame):
    raise _Timeout()


# ------------------------------------------------------------------ lattice runs (exact part)

def lattice_top(chains, closed=()):
    lines = ["[ defaults ]", "1 2 no 1.0 1.0", "[ atomtypes ]", "P 72.0 0.0 A %.2f 4.0" % H]
    for m, n in enumerate(chains, 1):
        lines += ["[ moleculetype ]", "C%d 1" % m, "[ atoms ]"]
        lines += ["%d P %d RA B %d 0.0 72" % (i, i, i) for i in range(1, n + 1)]
        if n > 1:
            lines.append("[ bonds ]")
            lines += ["%d %d 1 %.2f 100" % (i, i + 1, H) for i in range(1, n)]
            if m in closed and n > 2:
                lines.append("%d 1 1 %.2f 100" % (n, H))
    lines += ["[ system ]", "lattice", "[ molecules ]"] + ["C%d 1" % m for m in range(1, len(chains) + 1)]
    return "\n".join(lines) + "\n"


class Scripted(Exception):
    pass


def lattice_run(L, chains, grid, bundle, maxiter, script=None, seed=0, closed=()):
    """run the real BuildSystem on the lattice instance; script = list of ("start", grid index) / ("draw", vector index) or None (real draws).
    returns (events, final positions, error)"""
    from polyply.src.topology import Topology
    from polyply.src import build_system as bs, random_walk as rw
    from polyply.src.nonbond_engine import NonBondEngine
    import random as pyrandom
    events, state = [], {"draws": [], "mol": None, "root": False, "script": list(script) if script is not None else None}
    box = np.array([L * H] * 3)
    gridarr = np.array(grid, float) * H
    vecs = DIRS[[b - 1 for b in bundle]]

    def lat(x):
        return [int(round(v / H)) for v in x]

    def pop(kind, hi):
        if state["script"] is None:
            return None
        if not state["script"] or state["script"][0][0] != kind:
            raise Scripted("the code asks for a %s choice, the schedule has %s" % (kind, state["script"][:1]))
        v = state["script"].pop(0)[1]
        if not 0 <= v < hi:
            raise Scripted("scripted %s index %d out of range %d" % (kind, v, hi))
        return v
    saved = []

    def patch(obj, name, new):
        saved.append((obj, name, getattr(obj, name)))
        setattr(obj, name, new)
    o_take = rw._take_step

    def take_step(vectors, step_length, coord, boxdim):
        v = pop("draw", len(vectors))
        if v is None:
            new, idx = o_take(vectors, step_length, coord, boxdim)
        else:
            o_ri = pyrandom.randint
            pyrandom.randint = lambda a, b: v
            try:
                new, idx = o_take(vectors, step_length, coord, boxdim)
            finally:
                pyrandom.randint = o_ri
        state["draws"].append((int(idx), lat(new)))
        return new, idx
    o_update = rw.RandomWalk.update_positions

    def update_positions(self, vb, cur, prev):
        state["draws"] = []
        ok = o_update(self, vb, cur, prev)
        for j, (idx, to) in enumerate(state["draws"]):
            ev = {"ev": "draw", "m": int(self.mol_idx) + 1, "r": int(cur) + 1, "i": idx + 1, "to": to, "ok": bool(ok and j == len(state["draws"]) - 1)}
            if ev["ok"]:
                obs, raw = monitor_obs(self.nonbond_matrix, self.molecule, self.mol_idx, cur, prev, self.step_fudge, self.max_force, box)
                ev["obs"], ev["raw"] = obs, raw
            events.append(ev)
        return ok
    o_run = rw.RandomWalk.run_molecule

    def run_molecule(self, mm):
        state["root"] = False
        self.maxiter = maxiter
        r = o_run(self, mm)
        if not state["root"]:
            events.append({"ev": "start", "m": int(self.mol_idx) + 1, "g": lat(self.start), "ok": False})
        return r
    o_add = NonBondEngine.add_positions

    def add_positions(self, point, mol_idx, node_key, start=True):
        r = o_add(self, point, mol_idx, node_key, start=start)
        if start:
            state["root"] = True
            ev = {"ev": "start", "m": int(mol_idx) + 1, "g": lat(point), "ok": True}
            events.append(ev)
        return r
    o_handle = bs.BuildSystem._handle_random_walk
    o_rem = NonBondEngine.remove_positions
    inh = {"v": False, "rw": False}

    def remove_positions(self, mol_idx, keys):
        r = o_rem(self, mol_idx, keys)
        if inh["v"] and not inh["rw"]:
            events.append({"ev": "abandon", "m": int(mol_idx) + 1})
        return r

    def handle(self, molecule, mol_idx, vs):
        inh["v"] = True
        try:
            ok, nb = o_handle(self, molecule, mol_idx, vs)
        finally:
            inh["v"] = False
        if ok:
            events.append({"ev": "accept", "m": int(mol_idx) + 1})
        return ok, nb
    o_rm2 = run_molecule

    def run_molecule2(self, mm):
        inh["rw"] = True
        try:
            return o_rm2(self, mm)
        finally:
            inh["rw"] = False
    o_npri = np.random.randint

    def np_randint(*a, **k):
        v = pop("start", len(gridarr)) if inh["v"] else None
        return o_npri(*a, **k) if v is None else v
    with tempfile.TemporaryDirectory(prefix="verif_c05_", dir="/var/tmp") as wd:
        top = Path(wd) / "l.top"
        top.write_text(lattice_top(chains, closed))
        topology = Topology.from_gmx_topfile(name="lattice", path=top)
        topology.preprocess()
        topology.volumes = {"RA": H}
        np.random.seed(seed)
        pyrandom.seed(seed)
        patch(rw, "_take_step", take_step)
        patch(rw.RandomWalk, "update_positions", update_positions)
        patch(rw.RandomWalk, "run_molecule", run_molecule2)
        patch(NonBondEngine, "add_positions", add_positions)
        patch(NonBondEngine, "remove_positions", remove_positions)
        patch(bs.BuildSystem, "_handle_random_walk", handle)
        patch(bs, "norm_sphere", lambda n=5000: vecs.copy())
        patch(np.random, "randint", np_randint)
        err = None
        try:
            sysb = bs.BuildSystem(topology, density=None, start_dict={i: None for i in range(len(chains))}, box=box, grid=gridarr,
                                  maxiter=10 ** 6, nrewind=50, step_fudge=1.0, max_force=1e3)
            sysb.run_system(topology.molecules)
        except Scripted as exc:
            err = "SCRIPT: %s" % exc
        except Exception as exc:
            err = "EXCEPTION: %s: %s" % (type(exc).__name__, exc)
        finally:
            for obj, name, old in reversed(saved):
                setattr(obj, name, old)
        pos = [[lat(mm.nodes[n]["position"]) if "position" in mm.nodes[n] else [-1, -1, -1] for n in mm.nodes] for mm in topology.molecules]
        if err is None and state["script"]:
            err = "SCRIPT: %d scripted choices were not consumed" % len(state["script"])
    return events, pos, err


def script_from(case):
    grid = [list(g) for g in case["grid"]]
    out = []
    for e in case["evs"]:
        if e["ev"] == "start":
            out.append(("start", grid.index(list(e["g"]))))
        elif e["ev"] == "draw":
            out.append(("draw", e["i"] - 1))
    return out


def strip(evs):
    return [{k: v for k, v in e.items() if k not in ("obs", "raw")} for e in evs]


def _lattice_replay(case):
    try:
        evs, pos, err = lattice_run(case["L"], case["chains"], case["grid"], case["bundle"], case["maxiter"], script_from(case), closed=case.get("closed", ()))
    except Exception as exc:
        return ("machinery", "%s: %s" % (type(exc).__name__, exc))
    exp = case["evs"]
    got = strip(evs)
    for i in range(max(len(got), len(exp))):
        a = got[i] if i < len(got) else None
        b = exp[i] if i < len(exp) else None
        if a != b:
            return ("diff", "event %d: observed %s, specification %s%s" % (i + 1, json.dumps(a), json.dumps(b), ("; " + err) if err else ""))
    if err:
        return ("diff", err)
    exp_pos = [[list(p) for p in mol] for mol in case["pos"]]
    if pos != exp_pos:
        return ("diff", "final positions %s, specification %s" % (pos, exp_pos))
    for e in evs:
        if e.get("obs") and not all(e["obs"].values()):
            return ("diff", "monitor: %s %s on %s" % (e["obs"], e["raw"], {k: e[k] for k in ("m", "r", "to")}))
    return ("ok", None)


def _lattice_trace(arg):
    sd, L, chains, grid, closed = arg
    bundle = [1, 2, 3, 4, 5, 6] * 14
    # accepted molecules never move, so a dense lattice can become infeasible for the remaining ones: time limit, no verdict
    signal.signal(signal.SIGPROF, _alarm)
    signal.setitimer(signal.ITIMER_PROF, 25, 5)     # CPU time of this process: the limit does not depend on the load of the machine
    signal.signal(signal.SIGALRM, _alarm)
    signal.setitimer(signal.ITIMER_REAL, 300, 5)     # wall-clock safety net
    try:
        evs, pos, err = lattice_run(L, chains, grid, bundle, 80, None, seed=sd, closed=closed)
    except _Timeout:
        return {"noverdict": "timeout"}
    except Exception as exc:
        return {"machinery": "%s: %s" % (type(exc).__name__, exc)}
    finally:
        signal.setitimer(signal.ITIMER_PROF, 0)
        signal.setitimer(signal.ITIMER_REAL, 0)
    return {"evs": evs, "err": err}


# ------------------------------------------------------------------ off-lattice real runs (monitor part)

Y_TOP = """[ defaults ]
1 2 no 1.0 1.0
[ atomtypes ]
P 72.0 0.0 A 0.47 4.0
Q 72.0 0.0 A 0.30 4.0
[ moleculetype ]
Y 1
[ atoms ]
1 P 1 RA B1 1 0.0 72
2 P 2 RA B1 2 0.0 72
3 P 3 RA B1 3 0.0 72
4 Q 4 RB B2 4 0.0 72
5 Q 5 RB B2 5 0.0 72
6 P 6 RA B1 6 0.0 72
7 Q 7 RB B2 7 0.0 72
[ bonds ]
1 2 1 0.47 100
2 3 1 0.47 100
3 4 1 0.40 100
4 5 1 0.30 100
3 6 1 0.47 100
6 7 1 0.40 100
[ moleculetype ]
RING 1
[ atoms ]
1 P 1 RA B1 1 0.0 72
2 P 2 RA B1 2 0.0 72
3 P 3 RA B1 3 0.0 72
4 P 4 RA B1 4 0.0 72
5 P 5 RA B1 5 0.0 72
[ bonds ]
1 2 1 0.47 100
2 3 1 0.47 100
3 4 1 0.47 100
4 5 1 0.47 100
5 1 1 0.47 100
[ moleculetype ]
TRI 1
[ atoms ]
1 P 1 RA B1 1 0.0 72
2 P 2 RA B1 2 0.0 72
3 P 3 RA B1 3 0.0 72
[ bonds ]
1 2 1 0.47 100
2 3 1 0.47 100
3 1 1 0.47 100
[ moleculetype ]
CAP 1
; five residues of ONE name; the two end residues carry a second bead, so they have another template and another size than the
; repeat units although they are named alike (the step length depends on the sizes, not on the names)
[ atoms ]
1 P 1 RA B1 1 0.0 72
2 P 1 RA B2 2 0.0 72
3 P 2 RA B1 3 0.0 72
4 P 3 RA B1 4 0.0 72
5 P 4 RA B1 5 0.0 72
6 P 5 RA B1 6 0.0 72
7 P 5 RA B2 7 0.0 72
[ bonds ]
1 2 1 0.47 100
1 3 1 0.47 100
3 4 1 0.47 100
4 5 1 0.47 100
5 6 1 0.47 100
6 7 1 0.47 100
[ system ]
mix
[ molecules ]
Y %d
RING %d
TRI %d
CAP 3
"""


SIZES_TOP = """[ defaults ]
1 2 no 1.0 1.0
[ atomtypes ]
P 72.0 0.0 A 0.47 4.0
[ moleculetype ]
BIG 1
[ atoms ]
1 P 1 BG B1 1 0.0 72
2 P 2 BG B1 2 0.0 72
3 P 3 BG B1 3 0.0 72
4 P 4 BG B1 4 0.0 72
5 P 5 BG B1 5 0.0 72
6 P 6 BG B1 6 0.0 72
[ bonds ]
1 2 1 0.47 100
2 3 1 0.47 100
3 4 1 0.47 100
4 5 1 0.47 100
5 6 1 0.47 100
[ moleculetype ]
SM 1
[ atoms ]
1 P 1 SM S1 1 0.0 72
[ system ]
sizes
[ molecules ]
BIG 8
SM 250
"""


SLAB_TOP = """[ defaults ]
1 2 no 1.0 1.0
[ atomtypes ]
P 72.0 0.0 A 0.47 4.0
[ moleculetype ]
W 1
[ atoms ]
1 P 1 W W 1 0.0 72
[ moleculetype ]
S 1
[ atoms ]
1 P 1 SA SA 1 0.0 72
[ moleculetype ]
C4 1
[ atoms ]
1 P 1 CA CA 1 0.0 72
2 P 2 CA CA 2 0.0 72
3 P 3 CA CA 3 0.0 72
4 P 4 CA CA 4 0.0 72
[ bonds ]
1 2 1 0.47 100
2 3 1 0.47 100
3 4 1 0.47 100
[ system ]
slab
[ molecules ]
W %d
S 20
C4 6
"""


def slab_files(wd, sd, nw=5200):
    """more than 5000 supplied residues in a slab (the engine opens a second search tree), the rest is built from a small user grid"""
    rng = np.random.default_rng(sd)
    nx = 60
    rows = []
    for i in range(nw):
        x, y, z = 0.15 + 0.16 * (i % nx), 0.15 + 0.16 * ((i // nx) % nx), 0.2 + 0.35 * (i // (nx * nx))
        rows.append("%5d%-5s%5s%5d%8.3f%8.3f%8.3f" % (1, "W", "W", (i + 1) % 100000, x, y, z))
    (wd / "slab.gro").write_text("slab\n%5d\n%s\n%10.5f%10.5f%10.5f\n" % (nw, "\n".join(rows), 10.0, 10.0, 12.0))
    (wd / "slab.top").write_text(SLAB_TOP % nw)
    g = np.array([[3.0 + 0.5 * i, 3.0 + 0.5 * j, 7.0 + 0.5 * k] for i in range(4) for j in range(4) for k in range(4)])
    np.savetxt(wd / "grid.dat", g)
    return g


def _real_run(arg):
    kind, box, step_fudge, max_force, nrewind, sd, usegrid = arg
    from polyply import gen_coords
    np.random.seed(sd)
    random.seed(sd)
    signal.signal(signal.SIGPROF, _alarm)
    signal.setitimer(signal.ITIMER_PROF, 150, 5)     # CPU time of this process: the limit does not depend on the load of the machine
    signal.signal(signal.SIGALRM, _alarm)
    signal.setitimer(signal.ITIMER_REAL, 1800, 5)     # wall-clock safety net
    holder = {}
    try:
        with tempfile.TemporaryDirectory(prefix="verif_c05_", dir="/var/tmp") as wd:
            wd = Path(wd)
            if kind == "slab":
                holder["grid"] = slab_files(wd, sd)
                with w.recording(monitor=make_monitor(step_fudge, max_force, holder)) as rec:
                    try:
                        gen_coords(toppath=wd / "slab.top", outpath=wd / "o.gro", name="t", coordpath=wd / "slab.gro", grid=str(wd / "grid.dat"),
                                   max_force=max_force, nrewind=nrewind, step_fudge=step_fudge)
                    except _Timeout:
                        return {"noverdict": "timeout"}
                    except Exception as exc:
                        return {"inst": rec.header, "evs": rec.events, "error_in_code": "%s: %s" % (type(exc).__name__, exc)}
                inst, evs = w.compact_trace(rec.header, rec.events)
                return {"inst": inst, "evs": evs, "error_in_code": None}
            if kind == "rebuild":
                # residues RA are regenerated between kept residues RB of an existing structure (-c full structure, -res RA): steps over
                # kept residues are skipped by the walk, and forced failures make it rewind across such skipped steps
                top = wd / "mix.top"
                top.write_text(Y_TOP % (6, 2, 2))
                try:
                    gen_coords(toppath=top, outpath=wd / "full.gro", name="t", box=np.array(box, float), max_force=5e4, nrewind=5, step_fudge=1.0)
                except _Timeout:
                    return {"noverdict": "timeout"}
                except Exception as exc:
                    return {"inst": None, "evs": [], "error_in_code": "first (unmonitored) run: %s: %s" % (type(exc).__name__, exc)}
                # the coordinate file of the second run: rows of the residues named with -res are left out (the reader does not expect them),
                # and a coordinate that the three-decimal format rounded onto the box edge is wrapped back into [0, box)
                rows = (wd / "full.gro").read_text().splitlines()
                bx = [float(x) for x in rows[-1].split()[:3]]
                kept = []
                for ln in rows[2:-1]:
                    if ln[5:10].strip() == "RA":
                        continue
                    xyz = [float(ln[20 + 8 * i:28 + 8 * i]) for i in range(3)]
                    xyz = [(v % b) if not (0.0 <= v < b) else v for v, b in zip(xyz, bx)]
                    xyz = [0.0 if float("%.3f" % v) >= b else v for v, b in zip(xyz, bx)]
                    kept.append(ln[:20] + "".join("%8.3f" % v for v in xyz))
                (wd / "full.gro").write_text("%s\n%5d\n%s\n%s\n" % (rows[0], len(kept), "\n".join(kept), rows[-1]))
                frng = random.Random(sd)
                budget = {"n": 12}

                def chooser(kinds):     # None = the code decides (every accepted placement is a natural one)
                    if kinds[0] == "ok" and budget["n"] > 0 and frng.random() < 0.2:
                        budget["n"] -= 1
                        return "fail"
                    return None
                holder["grid"] = None
                with w.recording(monitor=make_monitor(step_fudge, max_force, holder), chooser=chooser) as rec:
                    try:
                        gen_coords(toppath=top, outpath=wd / "o.gro", name="t", coordpath=wd / "full.gro", build_res=["RA"], max_force=max_force, nrewind=nrewind,
                                   step_fudge=step_fudge)
                    except _Timeout:
                        return {"noverdict": "timeout"}
                    except Exception as exc:
                        return {"inst": rec.header, "evs": rec.events, "error_in_code": "%s: %s" % (type(exc).__name__, exc)}
                return {"inst": rec.header, "evs": rec.events, "error_in_code": None}
            if kind == "sizes":
                # strongly mixed residue sizes given in a build file: chains of 1.3 nm residues (step length above 1 nm) and 0.2 nm solvent
                # placed after them (size ratio 6.5); every accepted placement is judged by the monitor with the single global cut-off
                top = wd / "sizes.top"
                top.write_text(SIZES_TOP)
                (wd / "sizes.bld").write_text("[ volumes ]\nBG 1.3\nSM 0.2\n")
                holder["grid"] = np.mgrid[0:box[0]:0.2, 0:box[1]:0.2, 0:box[2]:0.2].reshape(3, -1).T
                with w.recording(monitor=make_monitor(step_fudge, max_force, holder)) as rec:
                    try:
                        gen_coords(toppath=top, outpath=wd / "o.gro", name="t", box=np.array(box, float), build=[wd / "sizes.bld"], max_force=max_force,
                                   nrewind=nrewind, step_fudge=step_fudge)
                    except _Timeout:
                        return {"noverdict": "timeout"}
                    except Exception as exc:
                        return {"inst": rec.header, "evs": rec.events, "error_in_code": "%s: %s" % (type(exc).__name__, exc)}
                return {"inst": rec.header, "evs": rec.events, "error_in_code": None}
            if kind == "melt":
                top = FIX / "e5b" / "melt.top"
            else:
                top = wd / "mix.top"
                top.write_text(Y_TOP % (6, 4, 8))
            kw = {}
            if usegrid:
                rng = np.random.default_rng(sd)
                g = rng.uniform(0, 1, (400, 3)) * np.array(box)
                np.savetxt(wd / "grid.dat", g)
                kw["grid"] = str(wd / "grid.dat")
                holder["grid"] = np.loadtxt(wd / "grid.dat")
            else:
                holder["grid"] = np.mgrid[0:box[0]:0.2, 0:box[1]:0.2, 0:box[2]:0.2].reshape(3, -1).T
            with w.recording(monitor=make_monitor(step_fudge, max_force, holder)) as rec:
                try:
                    gen_coords(toppath=Path(top), outpath=wd / "o.gro", name="t", box=np.array(box, float), max_force=max_force, nrewind=nrewind,
                               step_fudge=step_fudge, **kw)
                except _Timeout:
                    return {"noverdict": "timeout"}
                except Exception as exc:
                    return {"inst": rec.header, "evs": rec.events, "error_in_code": "%s: %s" % (type(exc).__name__, exc)}
            return {"inst": rec.header, "evs": rec.events, "error_in_code": None}
    except _Timeout:
        return {"noverdict": "timeout"}
    finally:
        signal.setitimer(signal.ITIMER_PROF, 0)
        signal.setitimer(signal.ITIMER_REAL, 0)


def validate_lattice(ck, doc, name, expect_reject=False):
    wd = c.workdir("C05", name)
    f = wd / "traces.json"
    f.write_text(json.dumps(doc))
    cfg = wd / "Lat_trace.cfg"
    cfg.write_text((c.SPEC / "Lat_trace.cfg").read_text().replace("L = 3", "L = %d" % doc["L"]))
    res = c.tlc("LatticeTrace", cfg, workers=1, env={"TRACE_FILE": str(f)}, check=False, timeout=3000)
    rej = res.tagged("REJECTED")
    if res.rc != 0 and not rej and not res.inv_violated:
        raise c.MachineryError("LatticeTrace failed: %s" % res.out[-2500:])
    rejected = {}
    for r in rej:
        rejected.update({int(t): int(m) for t, m in r})
    if expect_reject:
        return rejected
    ck.add_tlc(res)
    if res.inv_violated:
        ck.violation({"kind": "lattice invariant", "invariant": res.inv_violated, "cx": c.counterexample(res)[:3000]},
                     what="a recorded lattice run drives LatticeWalk into a state violating %s" % res.inv_violated)
        return rejected
    ck.traces += len(doc["traces"]) - len(rejected)
    for tid, matched in sorted(rejected.items()):
        tr = doc["traces"][tid - 1]
        ck.violation({"kind": "lattice trace", "doc": {k: doc[k] for k in ("L", "chains", "closed", "grid", "bundle")}, "evs": tr[:matched + 1], "matched": matched},
                     what="lattice run rejected by LatticeWalk after %d matched events; next event %s" % (matched, json.dumps(tr[matched])[:300] if matched < len(tr) else None))
    return rejected


def run(tier):
    ck = c.Check("C05", tier)
    sd = c.seed()
    rng = random.Random(sd)
    ck.rule = ("S->I: all complete lattice behaviours (2 chains of 3 in a 2x2x2 periodic box, 3 grid points, 6-vector bundle) with at most 2 rejected "
               "choices; I->S exact: lattice runs (3x3x3 box, 2 chains of 7, 84-vector bundle) with real random draws; I->S monitor: real gen_coords runs on "
               "dense melts and a branched/cyclic mixture with cubic and non-cubic boxes, step factors 0.8/1.0/1.2, force limits, default and user grids")
    ck.assumptions = ["on the lattice the acceptance test is decided exactly (site free or not); the soft-sphere force value is recomputed by an independent numeric monitor (12-6 gradient, minimum image, rtol 1e-9)",
                      "distances compared with 1e-6 nm tolerance; threshold-equal distances are avoided by construction (lattice spacing 0.5 nm)"]
    ck.stage("TLC: lattice model, sensitivity, export")
    wd = c.workdir("C05", "cfg")
    q3 = wd / "Lat_q3.cfg"
    q3.write_text((c.SPEC / "Lat_small3.cfg").read_text().replace("Chains43", "Chains3x2").replace("MaxReject = 3", "MaxReject = 3"))
    jobs = [("MC_Lattice", "Lat_small.cfg", {"workers": 4}),
            ("MC_Lattice", "Lat_unbounded.cfg" if tier == "quick" else "Lat_unbounded3.cfg", {"workers": 2 if tier == "quick" else 6, "timeout": 3000}),
            ("MC_Lattice", q3 if tier == "quick" else "Lat_small3.cfg", {"workers": 6, "timeout": 3000}),
            ("MC_Lattice", "Lat_dev_nowrap.cfg", {"check": False, "workers": 1}),
            ("MC_Lattice", "Lat_dev_nooverlap.cfg", {"check": False, "workers": 1}),
            ("MC_Lattice", "Lat_dev_neigh.cfg", {"check": False, "workers": 1}),
            ("LatticeExport", "Lat_export.cfg", {"workers": 4})]
    small, unb, small3, d1, d2, d3, ex = c.tlc_many(jobs)
    ck.model_must_hold(small, "StepOne/InBox/NoOverlap/RootOnGrid/Contiguous/Final (L=2)")
    ck.model_must_hold(unb, "the same invariants on the COMPLETE reachable state graph with no bound on rejected draws / starts (MaxReject <- Unlimited: `rejects` frozen, "
                            "all other variables range over finite sets, so every rejection schedule of any length is a path of this graph; L=2, ring + chain)")
    ck.extra["unbounded_rejections"] = {"cfg": "Lat_unbounded.cfg" if tier == "quick" else "Lat_unbounded3.cfg", "distinct_states": unb.distinct}
    ck.model_must_hold(small3, "StepOne/InBox/NoOverlap/RootOnGrid/Contiguous/Final (L=3)")
    ck.model_must_refute(d1, "InBox", "new position not wrapped into the box")
    ck.model_must_refute(d2, "NoOverlap", "overlap test bypassed")
    ck.model_must_refute(d3, "NoOverlap", "0.1 nm test skipped for bonded neighbours (ring-closing residue)")
    ck.model_must_hold(ex, "export")
    cases = ex.cases()
    ck.require(len(cases) > 1000, "too few lattice behaviours exported: %d" % len(cases))
    ck.extra["exported_behaviours"] = len(cases)
    if tier == "quick":
        rej = [x for x in cases if any(not e.get("ok", True) for e in x["evs"])]
        plain = [x for x in cases if not any(not e.get("ok", True) for e in x["evs"])]
        cases = rng.sample(rej, min(len(rej), 1700)) + rng.sample(plain, min(len(plain), 500))
    ck.stage("S->I: replay of %d lattice behaviours" % len(cases))
    ck.sample({"lattice behaviour": cases[0]["evs"], "final": cases[0]["pos"]})
    for cs, (kind, msg) in zip(cases, c.pmap(_lattice_replay, cases, chunksize=8)):
        if kind == "machinery":
            raise c.MachineryError(msg)
        ck.replayed += 1
        ck.count(json.dumps(script_from(cs)))
        for e in cs["evs"]:
            key = e["ev"] + ("" if e.get("ok", True) else ":rejected")
            ck.actions[key] = ck.actions.get(key, 0) + 1
        if kind == "diff":
            ck.violation({"kind": "lattice replay", "case": cs}, what="lattice behaviour %s: %s" % (script_from(cs), msg))
    ck.require(ck.actions.get("draw:rejected") and ck.actions.get("start:rejected") and ck.actions.get("abandon"), "replayed lattice behaviours contain no rejection / abandon")
    ck.stage("I->S exact: lattice runs with real draws")
    grid3 = [[0, 0, 0], [2, 2, 2], [1, 0, 2], [0, 1, 1], [2, 0, 1]]
    n = 40 if tier == "quick" else 400
    lchains, lclosed = [3, 3, 5, 3], [1, 2, 4]      # three 3-rings (the closing residue can step back onto residue 1) and a chain
    outs = c.pmap(_lattice_trace, [(sd * 1000 + i, 3, lchains, grid3, lclosed) for i in range(n)], chunksize=2)
    traces = []
    for o in outs:
        if "noverdict" in o:
            ck.extra["lattice_no_verdict"] = ck.extra.get("lattice_no_verdict", 0) + 1
            continue
        if "machinery" in o:
            raise c.MachineryError(o["machinery"])
        if o["err"]:
            ck.violation({"kind": "lattice run", "error": o["err"], "evs": o["evs"][-10:]}, what="lattice run with real draws failed: %s" % o["err"])
            continue
        traces.append(o["evs"])
    doc = {"L": 3, "chains": lchains, "closed": lclosed, "grid": grid3, "bundle": [1, 2, 3, 4, 5, 6] * 14, "traces": traces}
    if traces:
        validate_lattice(ck, doc, "lattice")
        wraps = sum(1 for t in traces for e in t if e["ev"] == "draw" and e["ok"] and (0 in e["to"] or 2 in e["to"]))
        ck.extra["lattice_trace_rejected_draws"] = sum(1 for t in traces for e in t if e["ev"] == "draw" and not e["ok"])
        ck.require(ck.extra["lattice_trace_rejected_draws"] > 0, "no rejected draw in the lattice traces")
        demo = json.loads(json.dumps(doc))
        demo["traces"] = demo["traces"][:2]
        k = next(i for i, e in enumerate(demo["traces"][0]) if e["ev"] == "draw" and e["ok"])
        demo["traces"][0][k]["to"][0] = (demo["traces"][0][k]["to"][0] + 1) % 3
        rej = validate_lattice(ck, demo, "demo", expect_reject=True)
        if 1 not in rej:
            raise c.MachineryError("binding demonstration failed: a lattice trace with a corrupted position was accepted")
        ck.extra["binding_demo"] = "lattice trace with one corrupted position rejected after %d matched events" % rej[1]
    ck.stage("I->S monitor: real gen_coords runs")
    runs = [("melt", [3.0, 3.0, 3.0], 1.0, 3000.0, 3, sd * 100 + 1, False), ("melt", [2.6, 3.2, 3.4], 0.8, 5000.0, 5, sd * 100 + 2, False),
            ("mix", [3.0, 2.5, 2.8], 1.2, 2000.0, 2, sd * 100 + 3, True), ("mix", [2.6, 2.6, 2.6], 1.0, 5e4, 5, sd * 100 + 4, False)]
    runs.append(("slab", [10.0, 10.0, 12.0], 1.0, 5e4, 5, sd * 100 + 5, True))
    # force criterion switched off by an astronomically large limit: only the 0.1 nm rule is left (dense box, short steps)
    runs.append(("melt", [2.5, 2.5, 2.5], 0.5, 1e300, 3, sd * 100 + 6, False))
    runs.append(("mix", [2.2, 2.2, 2.2], 0.5, 1e300, 5, sd * 100 + 7, False))
    # regeneration of named residues between kept ones, with forced failures (rewinds across skipped steps)
    runs.append(("rebuild", [3.5, 3.5, 3.5], 1.0, 5e4, 2, sd * 100 + 8, False))
    runs.append(("rebuild", [3.5, 3.2, 3.8], 0.8, 5e4, 3, sd * 100 + 9, False))
    runs.append(("rebuild", [3.6, 3.6, 3.6], 1.0, 5e4, 2, sd * 100 + 40, False))
    runs.append(("rebuild", [3.4, 3.6, 3.5], 1.2, 5e4, 4, sd * 100 + 41, False))
    # strongly mixed residue sizes, step length above 1 nm
    runs.append(("sizes", [7.0, 7.0, 7.0], 1.0, 1e3, 3, sd * 100 + 50, False))
    runs.append(("sizes", [6.5, 7.0, 7.5], 0.8, 5e4, 5, sd * 100 + 51, False))
    if tier == "thorough":
        runs += [("sizes", [7.0, 7.0, 7.0], sf, mf, 3, sd * 100 + 70 + i, False) for i, (sf, mf) in enumerate([(1.0, 1e3), (1.2, 1e3), (0.8, 5e4), (1.0, 5e4)])]
        runs += [("rebuild", [3.5, 3.5, 3.5], sf, 5e4, nr, sd * 100 + 60 + i, False) for i, (sf, nr) in enumerate([(1.0, 2), (1.0, 3), (0.8, 4), (1.2, 5), (1.0, 1), (0.8, 2)])]
        runs += [(k, b, sf, mf, nr, sd * 100 + 10 + i, g) for i, (k, b, sf, mf, nr, g) in enumerate(
            [(k, b, sf, mf, nr, g) for k in ("melt", "mix") for b in ([3.0, 3.0, 3.0], [2.7, 3.1, 3.3]) for sf in (0.8, 1.0, 1.2)
             for mf, nr, g in ((3000.0, 3, False), (1e3, 5, True))])]
    rtr = c17.collect(ck, c.pmap(_real_run, runs), "real runs")
    nplace = sum(1 for t in rtr for e in t["evs"] if e["ev"] in ("ok", "root"))
    ck.extra["monitored_placements"] = nplace
    if ck.require(bool(rtr) and nplace > 100, "too few monitored placements: %d" % nplace):
        c17_prop_ck = ck
        wdv = c.workdir("C05", "real")
        f = wdv / "traces.json"
        f.write_text(json.dumps(rtr))
        res = c.tlc("WalkTrace", "Walk_trace.cfg", workers=1, env={"TRACE_FILE": str(f)}, check=False, timeout=3000)
        rej = {}
        for r in res.tagged("REJECTED"):
            rej.update({int(t): int(m) for t, m in r})
        if res.rc != 0 and not rej and not res.inv_violated:
            raise c.MachineryError("WalkTrace failed: %s" % res.out[-2000:])
        ck.add_tlc(res)
        ck.traces += len(rtr) - len(rej)
        for tid, matched in sorted(rej.items()):
            ev = rtr[tid - 1]["evs"][matched] if matched < len(rtr[tid - 1]["evs"]) else None
            ck.violation({"kind": "real run", "run": runs[tid - 1] if tid - 1 < len(runs) else None, "event": ev, "matched": matched},
                         what="real gen_coords run %s rejected after %d events; next event %s" % (runs[tid - 1] if tid - 1 < len(runs) else "", matched, json.dumps(ev)[:500]))
        ck.sample({"monitored placement": next(e for e in rtr[0]["evs"] if e["ev"] == "ok")})
    ck.exhaustive = True
    return ck.finish()


def replay(path):
    doc = json.loads(open(path).read())
    case = doc["case"]
    if case["kind"] == "lattice replay":
        kind, msg = _lattice_replay(case["case"])
        print("replayed:", kind, msg)
        return 1 if kind == "diff" else 0
    if case["kind"] == "real run" and case.get("run"):
        out = _real_run(tuple(case["run"]))
        bad = [e for e in out.get("evs", []) if e.get("obs") and not all(e["obs"].values())]
        print("replayed: %d placements fail the monitor" % len(bad), bad[:1])
        return 1 if bad or out.get("error_in_code") else 0
    print("no replay for kind", case["kind"])
    return 0
