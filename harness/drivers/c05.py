"""C05 - generated residues are one step apart, inside the box, never overlapping.

spec/LatticeWalk.tla : exact lattice instance of the placement geometry (draw index -> direction -> wrapped target site,
                       accepted iff the site is free; start on a grid point), StepOne / InBox / NoOverlap / RootOnGrid.
S->I : every complete lattice behaviour TLC enumerates is scripted into the real BuildSystem/RandomWalk (the random choices
       np.random.randint for the start grid index and random.randint for the vector index are replaced by the scripted ones,
       the vector bundle is the six lattice directions); every computed position and acceptance must equal the specification's.
I->S : (exact) lattice runs with the real random draws validated by LatticeTrace; (monitor) arbitrary real gen_coords runs
       (dense melts, non-cubic boxes, step factors, force limits, branched and cyclic molecules, user grid) where an
       independent monitor recomputes for every accepted placement: minimum-image distance to the predecessor = step factor x
       mean size, inside the box, start on a grid point, >= 0.1 nm from every other residue, soft-sphere force from positioned
       non-neighbours within the cut-off <= limit; WalkTrace requires these booleans on every PlaceOk / PlaceRootOk.
Histories : one process builds several systems one after the other (LatticeWalk.History / NextBuild / memo): the molecule names
       come back with another residue graph (chain / ring / star), length and count; with Force = TRUE the force criterion is
       decided exactly on the lattice (ForceOK, ForceWithinLimit: neighbours of the system being built).  S->I: exported
       two-system histories replayed in one process; I->S: lattice histories with real draws (LatticeTrace, "build" events),
       gen_coords called several times in one process (one WalkTrace trace per call, monitor parameters of that call).
"""
import json
import random
import signal
import tempfile
from pathlib import Path

import numpy as np

from .. import common as c
from .. import walk_util as w
from . import c17

H = 0.5      # lattice spacing = step length = residue size
DIRS = np.array([[1, 0, 0], [-1, 0, 0], [0, 1, 0], [0, -1, 0], [0, 0, 1], [0, 0, -1]], float)
FIX = c.VERIF / "selftest" / "fixtures"


# ------------------------------------------------------------------ geometric monitor (independent of polyply's code)

def monitor_obs(eng, mol, mol_idx, node, prev, step_fudge, max_force, box, grid=None, nrexcl=1, sizes=None, mols=None):
    """sizes / mols: residue sizes by residue name as the harness wrote them into the build file of THIS run and the molecules of the
    topology of THIS run: pair sizes (mean) and the cut-off (twice the largest size) are then taken from them and not from the engine"""
    gndx = eng.nodes_to_gndx[(mol_idx, node)]
    p = np.asarray(eng.positions[gndx], float)
    obs, raw = {}, {}
    if sizes is not None:
        rev = {g: key for key, g in eng.nodes_to_gndx.items()}

        def pair(ga, gb):
            (ma, na), (mb, nb) = rev[int(ga)], rev[int(gb)]
            return 0.5 * (sizes[mols[ma].nodes[na]["resname"]] + sizes[mols[mb].nodes[nb]["resname"]]), 1.0
        cut_off = 2.0 * max(sizes[m.nodes[n]["resname"]] for m in mols for n in m.nodes)
    else:
        def pair(ga, gb):
            return eng.interaction_matrix[frozenset([eng.atypes[ga], eng.atypes[gb]])]
        cut_off = eng.cut_off
    obs["in_box"] = bool(np.all(p >= 0) and np.all(p < box + 1e-12))
    if prev is not None:
        q = np.asarray(eng.positions[eng.nodes_to_gndx[(mol_idx, prev)]], float)
        d = p - q
        d -= box * np.round(d / box)
        sig = pair(gndx, eng.nodes_to_gndx[(mol_idx, prev)])[0]
        raw["dist"], raw["step"] = float(np.linalg.norm(d)), float(step_fudge * sig)
        obs["dist_ok"] = bool(abs(raw["dist"] - raw["step"]) <= 1e-6)
    elif grid is not None:
        obs["grid_ok"] = bool(np.any(np.all(np.abs(np.asarray(grid) - p) <= 1e-9, axis=1)))
    # exclusions: graph neighbours of the node within nrexcl bonds (same molecule)
    import networkx as nx
    excl = {eng.nodes_to_gndx[(mol_idx, n)] for n in nx.single_source_shortest_path_length(mol, node, cutoff=nrexcl) if n != node}
    pos = eng.positions
    fin = np.where(np.isfinite(pos[:, 0]))[0]
    fin = fin[fin != gndx]
    force = np.zeros(3)
    mind = np.inf
    if len(fin):
        dd = p - pos[fin]
        dd -= box * np.round(dd / box)
        rr = np.linalg.norm(dd, axis=1)
        mind = float(rr.min())
        for g, dv, r in zip(fin, dd, rr):
            if r <= cut_off and g not in excl:
                sig, eps = pair(gndx, g)
                force += 24.0 * eps * (2.0 * sig ** 12 / r ** 13 - sig ** 6 / r ** 7) * dv / r
    raw["min_d"], raw["force"] = (mind if np.isfinite(mind) else -1.0), float(np.linalg.norm(force))
    obs["sep_ok"] = bool(mind >= 0.1)
    obs["force_ok"] = bool(raw["force"] <= max_force * (1 + 1e-9))
    return obs, raw


def make_monitor(step_fudge, max_force, grid_holder):
    def mon(rec, ev):
        if ev["ev"] == "finish":
            # at the end every residue of every molecule has a finite position inside the box (a residue taken back and never regenerated has none)
            eng = rec.engine
            box = np.asarray(grid_holder["box"] if grid_holder.get("box") is not None else eng.boxsize, float)
            bad = []
            for mi, mol in enumerate(rec.topology.molecules):
                for node in mol.nodes:
                    g = eng.nodes_to_gndx.get((mi, node))
                    q = np.asarray(eng.positions[g], float) if g is not None else np.array([np.inf] * 3)
                    if not (np.all(np.isfinite(q)) and np.all(q >= 0) and np.all(q < box + 1e-12)):
                        bad.append([mi, int(node)])
            ev["obs"], ev["raw"] = {"all_positioned_in_box": not bad}, {"unpositioned": bad[:20]}
            return
        if ev["ev"] not in ("ok", "root"):
            return
        mi = ev["mol"] - 1
        mol = rec.topology.molecules[mi]
        node = (ev["cur"] if ev["ev"] == "ok" else ev["node"]) - 1
        prev = ev["prev"] - 1 if ev["ev"] == "ok" else None
        eng = rec.engine
        box = np.asarray(grid_holder["box"] if grid_holder.get("box") is not None else eng.boxsize, float)
        obs, raw = monitor_obs(eng, mol, mi, node, prev, step_fudge, max_force, box, grid_holder.get("grid"),
                               sizes=grid_holder.get("sizes"), mols=rec.topology.molecules if grid_holder.get("sizes") is not None else None)
        ev["obs"], ev["raw"] = obs, raw
    return mon


class _Timeout(BaseException):
    pass


def _alarm(signum, frame):
    raise _Timeout()


# ------------------------------------------------------------------ lattice runs (exact part)

def lattice_top(chains, closed=(), stars=()):
    """molecule m is called C<m> in every system: a chain, a ring (closed) or a star (residues 2.. bonded to residue 1)"""
    lines = ["[ defaults ]", "1 2 no 1.0 1.0", "[ atomtypes ]", "P 72.0 0.0 A %.2f 4.0" % H]
    for m, n in enumerate(chains, 1):
        lines += ["[ moleculetype ]", "C%d 1" % m, "[ atoms ]"]
        lines += ["%d P %d RA B %d 0.0 72" % (i, i, i) for i in range(1, n + 1)]
        if n > 1:
            lines.append("[ bonds ]")
            if m in stars:
                lines += ["1 %d 1 %.2f 100" % (i, H) for i in range(2, n + 1)]
            else:
                lines += ["%d %d 1 %.2f 100" % (i, i + 1, H) for i in range(1, n)]
                if m in closed and n > 2:
                    lines.append("%d 1 1 %.2f 100" % (n, H))
    lines += ["[ system ]", "lattice", "[ molecules ]"] + ["C%d 1" % m for m in range(1, len(chains) + 1)]
    return "\n".join(lines) + "\n"


class Scripted(Exception):
    pass


FORCE_LIMIT = 4e4     # Force = TRUE in LatticeWalk: residue size 2 H, step factor 1/2, this force limit


def lattice_run(L, chains, grid, bundle, maxiter, script=None, seed=0, closed=(), stars=(), force=False, max_abandon=None):
    """run the real BuildSystem on the lattice instance; script = list of ("start", grid index) / ("draw", vector index) or None (real draws).
    force: the instance in which the force criterion decides on the lattice (see LatticeWalk.ForceOK).
    max_abandon: a molecule abandoned more often than this in a row is taken as a jammed lattice (accepted molecules never move, so the
    remaining one may have no room left and the code would try for ever): _Timeout("jam") is raised - no verdict, independent of the machine.
    returns (events, final positions, error)"""
    from polyply.src.topology import Topology
    from polyply.src import build_system as bs, random_walk as rw
    from polyply.src.nonbond_engine import NonBondEngine
    import random as pyrandom
    events, state = [], {"draws": [], "mol": None, "root": False, "script": list(script) if script is not None else None}
    box = np.array([L * H] * 3)
    gridarr = np.array(grid, float) * H
    vecs = DIRS[[b - 1 for b in bundle]]

    def lat(x):
        return [int(round(v / H)) for v in x]

    def pop(kind, hi):
        if state["script"] is None:
            return None
        if not state["script"] or state["script"][0][0] != kind:
            raise Scripted("the code asks for a %s choice, the schedule has %s" % (kind, state["script"][:1]))
        v = state["script"].pop(0)[1]
        if not 0 <= v < hi:
            raise Scripted("scripted %s index %d out of range %d" % (kind, v, hi))
        return v
    saved = []

    def patch(obj, name, new):
        saved.append((obj, name, getattr(obj, name)))
        setattr(obj, name, new)
    o_take = rw._take_step

    def take_step(vectors, step_length, coord, boxdim):
        v = pop("draw", len(vectors))
        if v is None:
            new, idx = o_take(vectors, step_length, coord, boxdim)
        else:
            o_ri = pyrandom.randint
            pyrandom.randint = lambda a, b: v
            try:
                new, idx = o_take(vectors, step_length, coord, boxdim)
            finally:
                pyrandom.randint = o_ri
        state["draws"].append((int(idx), lat(new)))
        return new, idx
    o_update = rw.RandomWalk.update_positions

    def update_positions(self, vb, cur, prev):
        state["draws"] = []
        ok = o_update(self, vb, cur, prev)
        for j, (idx, to) in enumerate(state["draws"]):
            ev = {"ev": "draw", "m": int(self.mol_idx) + 1, "r": int(cur) + 1, "i": idx + 1, "to": to, "ok": bool(ok and j == len(state["draws"]) - 1)}
            if ev["ok"]:
                obs, raw = monitor_obs(self.nonbond_matrix, self.molecule, self.mol_idx, cur, prev, self.step_fudge, self.max_force, box)
                ev["obs"], ev["raw"] = obs, raw
            events.append(ev)
        return ok
    o_run = rw.RandomWalk.run_molecule

    def run_molecule(self, mm):
        state["root"] = False
        self.maxiter = maxiter
        r = o_run(self, mm)
        if not state["root"]:
            events.append({"ev": "start", "m": int(self.mol_idx) + 1, "g": lat(self.start), "ok": False})
        return r
    o_add = NonBondEngine.add_positions

    def add_positions(self, point, mol_idx, node_key, start=True):
        r = o_add(self, point, mol_idx, node_key, start=start)
        if start:
            state["root"] = True
            ev = {"ev": "start", "m": int(mol_idx) + 1, "g": lat(point), "ok": True}
            events.append(ev)
        return r
    o_handle = bs.BuildSystem._handle_random_walk
    o_rem = NonBondEngine.remove_positions
    inh = {"v": False, "rw": False}

    nab = {}

    def remove_positions(self, mol_idx, keys):
        r = o_rem(self, mol_idx, keys)
        if inh["v"] and not inh["rw"]:
            events.append({"ev": "abandon", "m": int(mol_idx) + 1})
            nab[int(mol_idx)] = nab.get(int(mol_idx), 0) + 1
            if max_abandon is not None and nab[int(mol_idx)] > max_abandon:
                raise _Timeout("jam")
        return r

    def handle(self, molecule, mol_idx, vs):
        inh["v"] = True
        try:
            ok, nb = o_handle(self, molecule, mol_idx, vs)
        finally:
            inh["v"] = False
        if ok:
            events.append({"ev": "accept", "m": int(mol_idx) + 1})
        return ok, nb
    o_rm2 = run_molecule

    def run_molecule2(self, mm):
        inh["rw"] = True
        try:
            return o_rm2(self, mm)
        finally:
            inh["rw"] = False
    o_npri = np.random.randint

    def np_randint(*a, **k):
        v = pop("start", len(gridarr)) if inh["v"] else None
        return o_npri(*a, **k) if v is None else v
    with tempfile.TemporaryDirectory(prefix="verif_c05_", dir="/var/tmp") as wd:
        top = Path(wd) / "l.top"
        top.write_text(lattice_top(chains, closed, stars))
        topology = Topology.from_gmx_topfile(name="lattice", path=top)
        topology.preprocess()
        topology.volumes = {"RA": 2 * H if force else H}
        np.random.seed(seed)
        pyrandom.seed(seed)
        patch(rw, "_take_step", take_step)
        patch(rw.RandomWalk, "update_positions", update_positions)
        patch(rw.RandomWalk, "run_molecule", run_molecule2)
        patch(NonBondEngine, "add_positions", add_positions)
        patch(NonBondEngine, "remove_positions", remove_positions)
        patch(bs.BuildSystem, "_handle_random_walk", handle)
        patch(bs, "norm_sphere", lambda n=5000: vecs.copy())
        patch(np.random, "randint", np_randint)
        err = None
        try:
            sysb = bs.BuildSystem(topology, density=None, start_dict={i: None for i in range(len(chains))}, box=box, grid=gridarr,
                                  maxiter=10 ** 6, nrewind=50, step_fudge=0.5 if force else 1.0, max_force=FORCE_LIMIT if force else 1e3)
            sysb.run_system(topology.molecules)
        except Scripted as exc:
            err = "SCRIPT: %s" % exc
        except Exception as exc:
            err = "EXCEPTION: %s: %s" % (type(exc).__name__, exc)
        finally:
            for obj, name, old in reversed(saved):
                setattr(obj, name, old)
        pos = [[lat(mm.nodes[n]["position"]) if "position" in mm.nodes[n] else [-1, -1, -1] for n in mm.nodes] for mm in topology.molecules]
        if err is None and state["script"]:
            err = "SCRIPT: %d scripted choices were not consumed" % len(state["script"])
    return events, pos, err


def history_run(L, history, grid, bundle, maxiter, script=None, seed=0, force=False, max_abandon=None):
    """the systems of `history` ([{chains, closed, stars}, ...]) built one after the other IN THIS PROCESS (a new topology and a new
    BuildSystem for each, as a library user / a parameter scan does); a {"ev": "build", "b": n} event precedes the events of system n.
    script: one list of scripted choices for the whole history, ("build",) separates the systems.
    returns (events, [final positions of every system], error)"""
    scripts = None
    if script is not None:
        scripts = [[]]
        for x in script:
            if x[0] == "build":
                scripts.append([])
            else:
                scripts[-1].append(x)
        if len(scripts) != len(history):
            return [], [], "SCRIPT: %d parts for %d systems" % (len(scripts), len(history))
    evs, poss = [], []
    for b, sysd in enumerate(history):
        if b:
            evs.append({"ev": "build", "b": b + 1})
        e, p, err = lattice_run(L, sysd["chains"], grid, bundle, maxiter, scripts[b] if scripts is not None else None, seed=seed + 7919 * b,
                                closed=sysd.get("closed", ()), stars=sysd.get("stars", ()), force=force, max_abandon=max_abandon)
        evs += e
        poss.append(p)
        if err:
            return evs, poss, "system %d of the history: %s" % (b + 1, err)
    return evs, poss, None


def case_history(case):
    return case["history"] if "history" in case else [{"chains": case["chains"], "closed": case.get("closed", []), "stars": []}]


def script_from(case):
    grid = [list(g) for g in case["grid"]]
    out = []
    for e in case["evs"]:
        if e["ev"] == "start":
            out.append(("start", grid.index(list(e["g"]))))
        elif e["ev"] == "draw":
            out.append(("draw", e["i"] - 1))
        elif e["ev"] == "build":
            out.append(("build",))
    return out


def positions_from(evs, history):
    """final positions of every system of the history implied by the events (accepted starts / draws; an abandoned molecule is cleared)"""
    out, b = [], 0
    cur = [[[-1, -1, -1] for _ in range(n)] for n in history[0]["chains"]]
    for e in evs:
        if e["ev"] == "build":
            out.append(cur)
            b += 1
            cur = [[[-1, -1, -1] for _ in range(n)] for n in history[b]["chains"]]
        elif e["ev"] == "start" and e["ok"]:
            cur[e["m"] - 1][0] = list(e["g"])
        elif e["ev"] == "draw" and e["ok"]:
            cur[e["m"] - 1][e["r"] - 1] = list(e["to"])
        elif e["ev"] == "abandon":
            cur[e["m"] - 1] = [[-1, -1, -1] for _ in cur[e["m"] - 1]]
    out.append(cur)
    return out


def strip(evs):
    return [{k: v for k, v in e.items() if k not in ("obs", "raw")} for e in evs]


def _lattice_replay(case):
    try:
        evs, poss, err = history_run(case["L"], case_history(case), case["grid"], case["bundle"], case["maxiter"], script_from(case), force=bool(case.get("force")))
    except Exception as exc:
        return ("machinery", "%s: %s" % (type(exc).__name__, exc))
    exp = case["evs"]
    got = strip(evs)
    for i in range(max(len(got), len(exp))):
        a = got[i] if i < len(got) else None
        b = exp[i] if i < len(exp) else None
        if a != b:
            return ("diff", "event %d: observed %s, specification %s%s" % (i + 1, json.dumps(a), json.dumps(b), ("; " + err) if err else ""))
    if err:
        return ("diff", err)
    exp_pos = positions_from(exp, case_history(case))
    if exp_pos[-1] != [[list(p) for p in mol] for mol in case["pos"]]:
        return ("machinery", "final positions implied by the exported events %s differ from the exported state %s" % (exp_pos[-1], case["pos"]))
    if poss != exp_pos:
        return ("diff", "final positions of the systems %s, specification %s" % (poss, exp_pos))
    for e in evs:
        if e.get("obs") and not all(e["obs"].values()):
            return ("diff", "monitor: %s %s on %s" % (e["obs"], e["raw"], {k: e[k] for k in ("m", "r", "to")}))
    return ("ok", None)


def _lattice_trace(arg):
    sd, L, history, grid, force = arg[:5]
    cpu_limit = arg[5] if len(arg) > 5 else 25
    bundle = [1, 2, 3, 4, 5, 6] * 14
    # accepted molecules never move, so a dense lattice can become infeasible for the remaining ones: time limit, no verdict
    signal.signal(signal.SIGPROF, _alarm)
    signal.setitimer(signal.ITIMER_PROF, cpu_limit, 5)     # CPU time of this process: the limit does not depend on the load of the machine
    signal.signal(signal.SIGALRM, _alarm)
    signal.setitimer(signal.ITIMER_REAL, 300, 5)     # wall-clock safety net
    try:
        evs, pos, err = history_run(L, history, grid, bundle, 80, None, seed=sd, force=force, max_abandon=400)
    except _Timeout as exc:
        return {"noverdict": str(exc) or "timeout"}
    except Exception as exc:
        return {"machinery": "%s: %s" % (type(exc).__name__, exc)}
    finally:
        signal.setitimer(signal.ITIMER_PROF, 0)
        signal.setitimer(signal.ITIMER_REAL, 0)
    return {"evs": evs, "err": err}


# ------------------------------------------------------------------ off-lattice real runs (monitor part)

Y_TOP = """[ defaults ]
1 2 no 1.0 1.0
[ atomtypes ]
P 72.0 0.0 A 0.47 4.0
Q 72.0 0.0 A 0.30 4.0
[ moleculetype ]
Y 1
[ atoms ]
1 P 1 RA B1 1 0.0 72
2 P 2 RA B1 2 0.0 72
3 P 3 RA B1 3 0.0 72
4 Q 4 RB B2 4 0.0 72
5 Q 5 RB B2 5 0.0 72
6 P 6 RA B1 6 0.0 72
7 Q 7 RB B2 7 0.0 72
[ bonds ]
1 2 1 0.47 100
2 3 1 0.47 100
3 4 1 0.40 100
4 5 1 0.30 100
3 6 1 0.47 100
6 7 1 0.40 100
[ moleculetype ]
RING 1
[ atoms ]
1 P 1 RA B1 1 0.0 72
2 P 2 RA B1 2 0.0 72
3 P 3 RA B1 3 0.0 72
4 P 4 RA B1 4 0.0 72
5 P 5 RA B1 5 0.0 72
[ bonds ]
1 2 1 0.47 100
2 3 1 0.47 100
3 4 1 0.47 100
4 5 1 0.47 100
5 1 1 0.47 100
[ moleculetype ]
TRI 1
[ atoms ]
1 P 1 RA B1 1 0.0 72
2 P 2 RA B1 2 0.0 72
3 P 3 RA B1 3 0.0 72
[ bonds ]
1 2 1 0.47 100
2 3 1 0.47 100
3 1 1 0.47 100
[ moleculetype ]
CAP 1
; five residues of ONE name; the two end residues carry a second bead, so they have another template and another size than the
; repeat units although they are named alike (the step length depends on the sizes, not on the names)
[ atoms ]
1 P 1 RA B1 1 0.0 72
2 P 1 RA B2 2 0.0 72
3 P 2 RA B1 3 0.0 72
4 P 3 RA B1 4 0.0 72
5 P 4 RA B1 5 0.0 72
6 P 5 RA B1 6 0.0 72
7 P 5 RA B2 7 0.0 72
[ bonds ]
1 2 1 0.47 100
1 3 1 0.47 100
3 4 1 0.47 100
4 5 1 0.47 100
5 6 1 0.47 100
6 7 1 0.47 100
[ system ]
mix
[ molecules ]
Y %d
RING %d
TRI %d
CAP 3
"""


SIZES_TOP = """[ defaults ]
1 2 no 1.0 1.0
[ atomtypes ]
P 72.0 0.0 A 0.47 4.0
[ moleculetype ]
BIG 1
[ atoms ]
1 P 1 BG B1 1 0.0 72
2 P 2 BG B1 2 0.0 72
3 P 3 BG B1 3 0.0 72
4 P 4 BG B1 4 0.0 72
5 P 5 BG B1 5 0.0 72
6 P 6 BG B1 6 0.0 72
[ bonds ]
1 2 1 0.47 100
2 3 1 0.47 100
3 4 1 0.47 100
4 5 1 0.47 100
5 6 1 0.47 100
[ moleculetype ]
SM 1
[ atoms ]
1 P 1 SM S1 1 0.0 72
[ system ]
sizes
[ molecules ]
BIG 8
SM 250
"""


SLAB_TOP = """[ defaults ]
1 2 no 1.0 1.0
[ atomtypes ]
P 72.0 0.0 A 0.47 4.0
[ moleculetype ]
W 1
[ atoms ]
1 P 1 W W 1 0.0 72
[ moleculetype ]
S 1
[ atoms ]
1 P 1 SA SA 1 0.0 72
[ moleculetype ]
C4 1
[ atoms ]
1 P 1 CA CA 1 0.0 72
2 P 2 CA CA 2 0.0 72
3 P 3 CA CA 3 0.0 72
4 P 4 CA CA 4 0.0 72
[ bonds ]
1 2 1 0.47 100
2 3 1 0.47 100
3 4 1 0.47 100
[ system ]
slab
[ molecules ]
W %d
S 20
C4 6
"""


def hist_top(mols):
    """mols: [(molecule name, shape, number of residues, count)], shape = lin | ring | star; every residue is one bead and is called RA"""
    lines = ["[ defaults ]", "1 2 no 1.0 1.0", "[ atomtypes ]", "P 72.0 0.0 A 0.47 4.0"]
    for name, shape, n, _ in mols:
        lines += ["[ moleculetype ]", "%s 1" % name, "[ atoms ]"]
        lines += ["%d P %d RA B1 %d 0.0 72" % (i, i, i) for i in range(1, n + 1)]
        if shape == "star":
            bonds = [(1, i) for i in range(2, n + 1)]
        else:
            bonds = [(i, i + 1) for i in range(1, n)] + ([(n, 1)] if shape == "ring" else [])
        lines += ["[ bonds ]"] + ["%d %d 1 0.47 100" % b for b in bonds]
    lines += ["[ system ]", "history", "[ molecules ]"] + ["%s %d" % (name, cnt) for name, _, _, cnt in mols]
    return "\n".join(lines) + "\n"


# histories of systems built by gen_coords in ONE process: the molecule names POL / CYC and the residue name RA come back in every system
# with another residue graph, another length, another count and another residue size; box, step factor and force limit change as well.
# (systems, residue size, box scale, step factor scale, force limit scale) - the last system has the parameters of the run tuple
HISTORIES = {
    1: [([("POL", "star", 6, 4)], 0.50, 1.10, 0.9, 10.0),
        ([("POL", "lin", 8, 25)], 0.45, 1.00, 1.0, 1.0)],
    2: [([("POL", "lin", 6, 10), ("CYC", "ring", 5, 3)], 0.45, 0.90, 1.0, 5.0),
        ([("POL", "star", 5, 12), ("CYC", "lin", 7, 5)], 0.55, 1.15, 0.9, 2.0),
        ([("POL", "ring", 6, 6), ("CYC", "star", 4, 6)], 0.50, 1.00, 1.0, 1.0)],
}


def _history_runs(wd, which, box, step_fudge, max_force, nrewind):
    """one trace per system; every system gets its own monitor parameters (sizes, box, grid, step factor, limit), all from the harness"""
    from polyply import gen_coords
    out = []
    for b, (mols, size, bs, fs, ms) in enumerate(HISTORIES[which], 1):
        top = wd / ("h%d.top" % b)
        top.write_text(hist_top(mols))
        bld = wd / ("h%d.bld" % b)
        bld.write_text("[ volumes ]\nRA %.3f\n" % size)
        bx = np.array(box, float) * bs
        sf, mf = step_fudge * fs, max_force * ms
        holder = {"grid": np.mgrid[0:bx[0]:0.2, 0:bx[1]:0.2, 0:bx[2]:0.2].reshape(3, -1).T, "box": bx, "sizes": {"RA": size}}
        with w.recording(monitor=make_monitor(sf, mf, holder)) as rec:
            try:
                gen_coords(toppath=top, outpath=wd / ("o%d.gro" % b), name="t", box=bx.copy(), build=[bld], max_force=mf, nrewind=nrewind, step_fudge=sf)
            except _Timeout:
                raise
            except Exception as exc:
                out.append({"inst": rec.header, "evs": rec.events, "error_in_code": "system %d of the history: %s: %s" % (b, type(exc).__name__, exc)})
                return out
        out.append({"inst": rec.header, "evs": rec.events, "error_in_code": None, "system": b})
    return out


def slab_files(wd, sd, nw=5200):
    """more than 5000 supplied residues in a slab (the engine opens a second search tree), the rest is built from a small user grid"""
    rng = np.random.default_rng(sd)
    nx = 60
    rows = []
    for i in range(nw):
        x, y, z = 0.15 + 0.16 * (i % nx), 0.15 + 0.16 * ((i // nx) % nx), 0.2 + 0.35 * (i // (nx * nx))
        rows.append("%5d%-5s%5s%5d%8.3f%8.3f%8.3f" % (1, "W", "W", (i + 1) % 100000, x, y, z))
    (wd / "slab.gro").write_text("slab\n%5d\n%s\n%10.5f%10.5f%10.5f\n" % (nw, "\n".join(rows), 10.0, 10.0, 12.0))
    (wd / "slab.top").write_text(SLAB_TOP % nw)
    g = np.array([[3.0 + 0.5 * i, 3.0 + 0.5 * j, 7.0 + 0.5 * k] for i in range(4) for j in range(4) for k in range(4)])
    np.savetxt(wd / "grid.dat", g)
    return g


def _real_run(arg):
    kind, box, step_fudge, max_force, nrewind, sd, usegrid = arg
    from polyply import gen_coords
    np.random.seed(sd)
    random.seed(sd)
    signal.signal(signal.SIGPROF, _alarm)
    signal.setitimer(signal.ITIMER_PROF, 150, 5)     # CPU time of this process: the limit does not depend on the load of the machine
    signal.signal(signal.SIGALRM, _alarm)
    signal.setitimer(signal.ITIMER_REAL, 1800, 5)     # wall-clock safety net
    holder = {}
    try:
        with tempfile.TemporaryDirectory(prefix="verif_c05_", dir="/var/tmp") as wd:
            wd = Path(wd)
            if kind == "slab":
                holder["grid"] = slab_files(wd, sd)
                with w.recording(monitor=make_monitor(step_fudge, max_force, holder)) as rec:
                    try:
                        gen_coords(toppath=wd / "slab.top", outpath=wd / "o.gro", name="t", coordpath=wd / "slab.gro", grid=str(wd / "grid.dat"),
                                   max_force=max_force, nrewind=nrewind, step_fudge=step_fudge)
                    except _Timeout:
                        return {"noverdict": "timeout"}
                    except Exception as exc:
                        return {"inst": rec.header, "evs": rec.events, "error_in_code": "%s: %s" % (type(exc).__name__, exc)}
                inst, evs = w.compact_trace(rec.header, rec.events)
                return {"inst": inst, "evs": evs, "error_in_code": None}
            if kind == "rebuild":
                # residues RA are regenerated between kept residues RB of an existing structure (-c full structure, -res RA): steps over
                # kept residues are skipped by the walk, and forced failures make it rewind across such skipped steps
                top = wd / "mix.top"
                top.write_text(Y_TOP % (6, 2, 2))
                try:
                    gen_coords(toppath=top, outpath=wd / "full.gro", name="t", box=np.array(box, float), max_force=5e4, nrewind=5, step_fudge=1.0)
                except _Timeout:
                    return {"noverdict": "timeout"}
                except Exception as exc:
                    return {"inst": None, "evs": [], "error_in_code": "first (unmonitored) run: %s: %s" % (type(exc).__name__, exc)}
                # the coordinate file of the second run: rows of the residues named with -res are left out (the reader does not expect them),
                # and a coordinate that the three-decimal format rounded onto the box edge is wrapped back into [0, box)
                rows = (wd / "full.gro").read_text().splitlines()
                bx = [float(x) for x in rows[-1].split()[:3]]
                kept = []
                for ln in rows[2:-1]:
                    if ln[5:10].strip() == "RA":
                        continue
                    xyz = [float(ln[20 + 8 * i:28 + 8 * i]) for i in range(3)]
                    xyz = [(v % b) if not (0.0 <= v < b) else v for v, b in zip(xyz, bx)]
                    xyz = [0.0 if float("%.3f" % v) >= b else v for v, b in zip(xyz, bx)]
                    kept.append(ln[:20] + "".join("%8.3f" % v for v in xyz))
                (wd / "full.gro").write_text("%s\n%5d\n%s\n%s\n" % (rows[0], len(kept), "\n".join(kept), rows[-1]))
                frng = random.Random(sd)
                budget = {"n": 12}

                def chooser(kinds):     # None = the code decides (every accepted placement is a natural one)
                    if kinds[0] == "ok" and budget["n"] > 0 and frng.random() < 0.2:
                        budget["n"] -= 1
                        return "fail"
                    return None
                holder["grid"] = None
                with w.recording(monitor=make_monitor(step_fudge, max_force, holder), chooser=chooser) as rec:
                    try:
                        gen_coords(toppath=top, outpath=wd / "o.gro", name="t", coordpath=wd / "full.gro", build_res=["RA"], max_force=max_force, nrewind=nrewind,
                                   step_fudge=step_fudge)
                    except _Timeout:
                        return {"noverdict": "timeout"}
                    except Exception as exc:
                        return {"inst": rec.header, "evs": rec.events, "error_in_code": "%s: %s" % (type(exc).__name__, exc)}
                return {"inst": rec.header, "evs": rec.events, "error_in_code": None}
            if kind == "history":
                return {"multi": _history_runs(wd, int(usegrid), box, step_fudge, max_force, nrewind)}
            if kind == "sizes":
                # strongly mixed residue sizes given in a build file: chains of 1.3 nm residues (step length above 1 nm) and 0.2 nm solvent
                # placed after them (size ratio 6.5); every accepted placement is judged by the monitor with the single global cut-off
                top = wd / "sizes.top"
                top.write_text(SIZES_TOP)
                (wd / "sizes.bld").write_text("[ volumes ]\nBG 1.3\nSM 0.2\n")
                holder["grid"] = np.mgrid[0:box[0]:0.2, 0:box[1]:0.2, 0:box[2]:0.2].reshape(3, -1).T
                with w.recording(monitor=make_monitor(step_fudge, max_force, holder)) as rec:
                    try:
                        gen_coords(toppath=top, outpath=wd / "o.gro", name="t", box=np.array(box, float), build=[wd / "sizes.bld"], max_force=max_force,
                                   nrewind=nrewind, step_fudge=step_fudge)
                    except _Timeout:
                        return {"noverdict": "timeout"}
                    except Exception as exc:
                        return {"inst": rec.header, "evs": rec.events, "error_in_code": "%s: %s" % (type(exc).__name__, exc)}
                return {"inst": rec.header, "evs": rec.events, "error_in_code": None}
            if kind == "melt":
                top = FIX / "e5b" / "melt.top"
            else:
                top = wd / "mix.top"
                top.write_text(Y_TOP % (6, 4, 8))
            kw = {}
            if usegrid:
                rng = np.random.default_rng(sd)
                g = rng.uniform(0, 1, (400, 3)) * np.array(box)
                np.savetxt(wd / "grid.dat", g)
                kw["grid"] = str(wd / "grid.dat")
                holder["grid"] = np.loadtxt(wd / "grid.dat")
            else:
                holder["grid"] = np.mgrid[0:box[0]:0.2, 0:box[1]:0.2, 0:box[2]:0.2].reshape(3, -1).T
            with w.recording(monitor=make_monitor(step_fudge, max_force, holder)) as rec:
                try:
                    gen_coords(toppath=Path(top), outpath=wd / "o.gro", name="t", box=np.array(box, float), max_force=max_force, nrewind=nrewind,
                               step_fudge=step_fudge, **kw)
                except _Timeout:
                    return {"noverdict": "timeout"}
                except Exception as exc:
                    return {"inst": rec.header, "evs": rec.events, "error_in_code": "%s: %s" % (type(exc).__name__, exc)}
            return {"inst": rec.header, "evs": rec.events, "error_in_code": None}
    except _Timeout:
        return {"noverdict": "timeout"}
    finally:
        signal.setitimer(signal.ITIMER_PROF, 0)
        signal.setitimer(signal.ITIMER_REAL, 0)


def lattice_tlc(doc, name):
    """LatticeTrace on one document of traces (may run in a thread next to others)"""
    wd = c.workdir("C05", name)
    f = wd / "traces.json"
    f.write_text(json.dumps(doc))
    cfg = wd / "Lat_trace.cfg"
    txt = (c.SPEC / "Lat_trace.cfg").read_text()
    if "L = 3" not in txt or "Force = FALSE" not in txt:
        raise c.MachineryError("Lat_trace.cfg: constants L / Force not found")
    cfg.write_text(txt.replace("L = 3", "L = %d" % doc["L"]).replace("Force = FALSE", "Force = %s" % ("TRUE" if doc.get("force") else "FALSE")))
    return c.tlc("LatticeTrace", cfg, workers=1, env={"TRACE_FILE": str(f)}, check=False, timeout=3000)


def validate_lattice(ck, doc, name, expect_reject=False, res=None):
    if res is None:
        res = lattice_tlc(doc, name)
    if isinstance(res, Exception):
        raise res
    rej = res.tagged("REJECTED")
    if res.rc != 0 and not rej and not res.inv_violated:
        raise c.MachineryError("LatticeTrace failed: %s" % res.out[-2500:])
    rejected = {}
    for r in rej:
        rejected.update({int(t): int(m) for t, m in r})
    if expect_reject:
        return rejected
    ck.add_tlc(res)
    if res.inv_violated:
        ck.violation({"kind": "lattice invariant", "invariant": res.inv_violated, "cx": c.counterexample(res)[:3000]},
                     what="a recorded lattice run drives LatticeWalk into a state violating %s" % res.inv_violated)
        return rejected
    ck.traces += len(doc["traces"]) - len(rejected)
    for tid, matched in sorted(rejected.items()):
        tr = doc["traces"][tid - 1]
        ck.violation({"kind": "lattice trace", "doc": {k: doc[k] for k in ("L", "history", "force", "grid", "bundle")}, "evs": tr[:matched + 1], "matched": matched},
                     what="lattice run rejected by LatticeWalk after %d matched events; next event %s" % (matched, json.dumps(tr[matched])[:300] if matched < len(tr) else None))
    return rejected


def run(tier):
    ck = c.Check("C05", tier)
    sd = c.seed()
    rng = random.Random(sd)
    ck.rule = ("S->I: all complete lattice behaviours (2 chains of 3 in a 2x2x2 periodic box, 3 grid points, 6-vector bundle) with at most 2 rejected "
               "choices; I->S exact: lattice runs (3x3x3 box, 2 chains of 7, 84-vector bundle) with real random draws; I->S monitor: real gen_coords runs on "
               "dense melts and a branched/cyclic mixture with cubic and non-cubic boxes, step factors 0.8/1.0/1.2, force limits, default and user grids. "
               "Histories of systems built in ONE process (same molecule / residue names, other residue graphs, lengths, counts, sizes, boxes): S->I all complete "
               "two-system lattice histories (ring C1, then chain C1; 3x3x3 box, force criterion decided on the lattice) with at most one rejection; I->S exact: "
               "three-system lattice histories with real draws; I->S monitor: gen_coords called two / three times in one process")
    ck.assumptions = ["on the lattice the acceptance test is decided exactly (site free or not; with Force = TRUE - residue size two lattice units, step factor 1/2, limit 4e4, 3x3x3 box - "
                      "also the force criterion: accepted iff on every axis the two adjacent sites hold equally many non-neighbours, LatticeWalk.ForceOK with the arithmetic in an ASSUME); "
                      "the soft-sphere force value is recomputed by an independent numeric monitor (12-6 gradient, minimum image, rtol 1e-9)",
                      "in the gen_coords histories the monitor takes residue sizes, box, grid, step factor and force limit from what the harness wrote for THAT call, not from the engine",
                      "distances compared with 1e-6 nm tolerance; threshold-equal distances are avoided by construction (lattice spacing 0.5 nm)"]
    ck.stage("TLC: lattice model, sensitivity, export")
    wd = c.workdir("C05", "cfg")
    q3 = wd / "Lat_q3.cfg"
    q3txt = (c.SPEC / "Lat_small3.cfg").read_text()
    if "History <- H43" not in q3txt:
        raise c.MachineryError("Lat_small3.cfg: History <- H43 not found")
    q3.write_text(q3txt.replace("History <- H43", "History <- H3x2"))
    # histories of systems built in one process (Force = TRUE: the force criterion decides on the lattice): complete graphs without a
    # bound on rejections; quick: ring -> chains; thorough: three more histories
    hists = ["HRingChain"] if tier == "quick" else ["HRingChain", "HStarChain", "HChainStar", "HChainRing"]
    hcfgs = []
    for hname in hists:
        hc = wd / ("Lat_hist_%s.cfg" % hname)
        htxt = (c.SPEC / "Lat_hist.cfg").read_text()
        if "History <- HRingChain" not in htxt:
            raise c.MachineryError("Lat_hist.cfg: History <- HRingChain not found")
        hc.write_text(htxt.replace("History <- HRingChain", "History <- %s" % hname))
        hcfgs.append(hc)
    jobs = [("MC_Lattice", "Lat_small.cfg", {"workers": 4}),
            ("MC_Lattice", "Lat_unbounded.cfg" if tier == "quick" else "Lat_unbounded3.cfg", {"workers": 2 if tier == "quick" else 6, "timeout": 3000}),
            ("MC_Lattice", q3 if tier == "quick" else "Lat_small3.cfg", {"workers": 6, "timeout": 3000}),
            ("MC_Lattice", "Lat_dev_nowrap.cfg", {"check": False, "workers": 1}),
            ("MC_Lattice", "Lat_dev_nooverlap.cfg", {"check": False, "workers": 1}),
            ("MC_Lattice", "Lat_dev_neigh.cfg", {"check": False, "workers": 1}),
            ("LatticeExport", "Lat_export.cfg", {"workers": 4}),
            ("MC_Lattice", "Lat_dev_stale.cfg", {"check": False, "workers": 1}),
            ("LatticeExport", "Lat_export_hist.cfg", {"workers": 4, "timeout": 3000})]
    jobs += [("MC_Lattice", hc, {"workers": 2, "timeout": 3000}) for hc in hcfgs]
    if tier != "quick":
        jobs.append(("MC_Lattice", "Lat_dev_noforce.cfg", {"check": False, "workers": 1}))
    res = c.tlc_many(jobs)
    small, unb, small3, d1, d2, d3, ex, d4, exh = res[:9]
    d5 = res[-1] if tier != "quick" else None
    for hname, hres in zip(hists, res[9:]):
        ck.model_must_hold(hres, "StepOne/InBox/NoOverlap/RootOnGrid/Contiguous/Final/ForceWithinLimit for the history %s of systems built in one process "
                                 "(Force = TRUE, L=3, no bound on rejections): acceptance depends on the system being built only" % hname)
        ck.extra.setdefault("history_models", {})[hname] = hres.distinct
    ck.model_must_hold(small, "StepOne/InBox/NoOverlap/RootOnGrid/Contiguous/Final (L=2)")
    ck.model_must_hold(unb, "the same invariants on the COMPLETE reachable state graph with no bound on rejected draws / starts (MaxReject <- Unlimited: `rejects` frozen, "
                            "all other variables range over finite sets, so every rejection schedule of any length is a path of this graph; L=2, ring + chain)")
    ck.extra["unbounded_rejections"] = {"cfg": "Lat_unbounded.cfg" if tier == "quick" else "Lat_unbounded3.cfg", "distinct_states": unb.distinct}
    ck.model_must_hold(small3, "StepOne/InBox/NoOverlap/RootOnGrid/Contiguous/Final (L=3)")
    ck.model_must_refute(d1, "InBox", "new position not wrapped into the box")
    ck.model_must_refute(d2, "NoOverlap", "overlap test bypassed")
    ck.model_must_refute(d3, "NoOverlap", "0.1 nm test skipped for bonded neighbours (ring-closing residue)")
    ck.model_must_refute(d4, "ForceWithinLimit", "neighbour table of a molecule name remembered from an earlier system of the same process (ring, then chain)")
    if d5 is not None:
        ck.model_must_refute(d5, "ForceWithinLimit", "force test bypassed")
    ck.model_must_hold(ex, "export")
    ck.model_must_hold(exh, "export of the two-system histories (ring C1, then chain C1; Force = TRUE)")
    cases = ex.cases()
    ck.require(len(cases) > 1000, "too few lattice behaviours exported: %d" % len(cases))
    ck.extra["exported_behaviours"] = len(cases)
    hcases = exh.cases()
    ck.require(len(hcases) > 1000, "too few lattice histories exported: %d" % len(hcases))
    ck.extra["exported_histories"] = len(hcases)
    ck.require(all(len(x["history"]) == 2 and x["force"] for x in hcases[:50]), "exported histories do not have two systems / Force")
    if tier == "quick":
        rej = [x for x in cases if any(not e.get("ok", True) for e in x["evs"])]
        plain = [x for x in cases if not any(not e.get("ok", True) for e in x["evs"])]
        cases = rng.sample(rej, min(len(rej), 1700)) + rng.sample(plain, min(len(plain), 500))
        hrej = [x for x in hcases if any(not e.get("ok", True) for e in x["evs"])]
        hplain = [x for x in hcases if not any(not e.get("ok", True) for e in x["evs"])]
        hcases = rng.sample(hrej, min(len(hrej), 450)) + rng.sample(hplain, min(len(hplain), 150))
    ck.extra["replayed_histories"] = len(hcases)
    cases = cases + hcases
    ck.stage("S->I: replay of %d lattice behaviours" % len(cases))
    ck.sample({"lattice behaviour": cases[0]["evs"], "final": cases[0]["pos"]})
    for cs, (kind, msg) in zip(cases, c.pmap(_lattice_replay, cases, chunksize=8)):
        if kind == "machinery":
            raise c.MachineryError(msg)
        ck.replayed += 1
        ck.count(json.dumps(script_from(cs)))
        for e in cs["evs"]:
            key = e["ev"] + ("" if e.get("ok", True) else ":rejected")
            ck.actions[key] = ck.actions.get(key, 0) + 1
        if kind == "diff":
            ck.violation({"kind": "lattice replay", "case": cs}, what="lattice behaviour %s: %s" % (script_from(cs), msg))
    ck.require(ck.actions.get("draw:rejected") and ck.actions.get("start:rejected") and ck.actions.get("abandon"), "replayed lattice behaviours contain no rejection / abandon")
    ck.require(ck.actions.get("build"), "no history of systems built in one process among the replayed behaviours")
    ck.stage("I->S exact: lattice runs with real draws")
    grid3 = [[0, 0, 0], [2, 2, 2], [1, 0, 2], [0, 1, 1], [2, 0, 1]]
    n = 40 if tier == "quick" else 400
    lchains, lclosed = [3, 3, 5, 3], [1, 2, 4]      # three 3-rings (the closing residue can step back onto residue 1) and a chain
    lhist = [{"chains": lchains, "closed": lclosed, "stars": []}]
    # histories with the force criterion: three systems in one process, the names C1 / C2 / C3 with other graphs, lengths and counts each time
    fhist = [{"chains": [3, 4], "closed": [1], "stars": [2]}, {"chains": [4, 3, 2], "closed": [], "stars": []}, {"chains": [4, 3], "closed": [1], "stars": []}]
    nh = 24 if tier == "quick" else 240
    gridall = [[x, y, z] for x in range(3) for y in range(3) for z in range(3)]     # every site is a start point: a start is found whenever one exists
    outs = c.pmap(_lattice_trace, [(sd * 1000 + i, 3, lhist, grid3, False) for i in range(n)] + [(sd * 1000 + 500 + i, 3, fhist, gridall, True, 8) for i in range(nh)], chunksize=2)
    houts, outs = outs[n:], outs[:n]
    traces = []
    for o in outs:
        if "noverdict" in o:
            ck.extra["lattice_no_verdict"] = ck.extra.get("lattice_no_verdict", 0) + 1
            continue
        if "machinery" in o:
            raise c.MachineryError(o["machinery"])
        if o["err"]:
            ck.violation({"kind": "lattice run", "error": o["err"], "evs": o["evs"][-10:]}, what="lattice run with real draws failed: %s" % o["err"])
            continue
        traces.append(o["evs"])
    htraces = []
    for o in houts:
        if "noverdict" in o:
            ck.extra["lattice_no_verdict"] = ck.extra.get("lattice_no_verdict", 0) + 1
            continue
        if "machinery" in o:
            raise c.MachineryError(o["machinery"])
        if o["err"]:
            ck.violation({"kind": "lattice run", "error": o["err"], "evs": o["evs"][-10:]}, what="lattice history with real draws failed: %s" % o["err"])
            continue
        htraces.append(o["evs"])
    bundle84 = [1, 2, 3, 4, 5, 6] * 14
    docs = {}
    if ck.require(len(htraces) >= nh // 2, "too few lattice histories with real draws came to an end: %d of %d" % (len(htraces), nh)):
        docs["lattice_hist"] = {"L": 3, "history": fhist, "force": True, "grid": gridall, "bundle": bundle84, "traces": htraces}
    if traces:
        docs["lattice"] = {"L": 3, "history": lhist, "force": False, "grid": grid3, "bundle": bundle84, "traces": traces}
        demo = json.loads(json.dumps(docs["lattice"]))
        demo["traces"] = demo["traces"][:2]
        k = next(i for i, e in enumerate(demo["traces"][0]) if e["ev"] == "draw" and e["ok"])
        demo["traces"][0][k]["to"][0] = (demo["traces"][0][k]["to"][0] + 1) % 3
        docs["demo"] = demo
    if "lattice_hist" in docs:
        # a history in which the neighbours of an earlier system are used: a chain C1 whose third residue is accepted next to its first
        # residue (allowed in the ring C1 of the system before, not in the chain)
        docs["demo_hist"] = {"L": 3, "history": [{"chains": [3], "closed": [1], "stars": []}, {"chains": [3], "closed": [], "stars": []}], "force": True,
                             "grid": gridall, "bundle": [1, 2, 3, 4, 5, 6], "traces": [
            [{"ev": "start", "m": 1, "g": [0, 0, 0], "ok": True}, {"ev": "draw", "m": 1, "r": 2, "i": 1, "to": [1, 0, 0], "ok": True},
             {"ev": "draw", "m": 1, "r": 3, "i": 1, "to": [2, 0, 0], "ok": True}, {"ev": "accept", "m": 1}, {"ev": "build", "b": 2},
             {"ev": "start", "m": 1, "g": [0, 0, 0], "ok": True}, {"ev": "draw", "m": 1, "r": 2, "i": 1, "to": [1, 0, 0], "ok": True},
             {"ev": "draw", "m": 1, "r": 3, "i": 1, "to": [2, 0, 0], "ok": True}, {"ev": "accept", "m": 1}]]}
    from concurrent.futures import ThreadPoolExecutor

    def _one(name):
        try:
            return lattice_tlc(docs[name], name)
        except Exception as exc:       # re-raised by validate_lattice in the main thread
            return exc
    with ThreadPoolExecutor(max(1, len(docs))) as ex:
        tres = dict(zip(docs, ex.map(_one, list(docs))))
    if "lattice_hist" in docs:
        validate_lattice(ck, docs["lattice_hist"], "lattice_hist", res=tres["lattice_hist"])
        ck.extra["lattice_history_traces"] = len(htraces)
        ck.extra["lattice_history_rejected_draws"] = sum(1 for t in htraces for e in t if e["ev"] in ("draw", "start") and not e["ok"])
        ck.require(ck.extra["lattice_history_rejected_draws"] > 0, "no rejected draw in the lattice histories")
        rej = validate_lattice(ck, docs["demo_hist"], "demo_hist", expect_reject=True, res=tres["demo_hist"])
        if rej.get(1) != 7:
            raise c.MachineryError("binding demonstration failed: a lattice history that uses the neighbours of the system built before was not rejected "
                                   "at the acceptance in the second system (%s)" % rej)
        ck.extra["binding_demo_history"] = "lattice history accepting a residue under the neighbours of the system built before: rejected after %d matched events" % rej[1]
    if traces:
        validate_lattice(ck, docs["lattice"], "lattice", res=tres["lattice"])
        ck.extra["lattice_trace_rejected_draws"] = sum(1 for t in traces for e in t if e["ev"] == "draw" and not e["ok"])
        ck.require(ck.extra["lattice_trace_rejected_draws"] > 0, "no rejected draw in the lattice traces")
        rej = validate_lattice(ck, docs["demo"], "demo", expect_reject=True, res=tres["demo"])
        if 1 not in rej:
            raise c.MachineryError("binding demonstration failed: a lattice trace with a corrupted position was accepted")
        ck.extra["binding_demo"] = "lattice trace with one corrupted position rejected after %d matched events" % rej[1]
    ck.stage("I->S monitor: real gen_coords runs")
    runs = [("melt", [3.0, 3.0, 3.0], 1.0, 3000.0, 3, sd * 100 + 1, False), ("melt", [2.6, 3.2, 3.4], 0.8, 5000.0, 5, sd * 100 + 2, False),
            ("mix", [3.0, 2.5, 2.8], 1.2, 2000.0, 2, sd * 100 + 3, True), ("mix", [2.6, 2.6, 2.6], 1.0, 5e4, 5, sd * 100 + 4, False)]
    runs.append(("slab", [10.0, 10.0, 12.0], 1.0, 5e4, 5, sd * 100 + 5, True))
    # force criterion switched off by an astronomically large limit: only the 0.1 nm rule is left (dense box, short steps)
    runs.append(("melt", [2.5, 2.5, 2.5], 0.5, 1e300, 3, sd * 100 + 6, False))
    runs.append(("mix", [2.2, 2.2, 2.2], 0.5, 1e300, 5, sd * 100 + 7, False))
    # regeneration of named residues between kept ones, with forced failures (rewinds across skipped steps)
    runs.append(("rebuild", [3.5, 3.5, 3.5], 1.0, 5e4, 2, sd * 100 + 8, False))
    runs.append(("rebuild", [3.5, 3.2, 3.8], 0.8, 5e4, 3, sd * 100 + 9, False))
    runs.append(("rebuild", [3.6, 3.6, 3.6], 1.0, 5e4, 2, sd * 100 + 40, False))
    runs.append(("rebuild", [3.4, 3.6, 3.5], 1.2, 5e4, 4, sd * 100 + 41, False))
    # strongly mixed residue sizes, step length above 1 nm
    runs.append(("sizes", [7.0, 7.0, 7.0], 1.0, 1e3, 3, sd * 100 + 50, False))
    runs.append(("sizes", [6.5, 7.0, 7.5], 0.8, 5e4, 5, sd * 100 + 51, False))
    # histories of gen_coords calls in one process (last field: which of HISTORIES)
    runs.append(("history", [4.5, 4.5, 4.5], 1.0, 200.0, 5, sd * 100 + 80, 1))
    runs.append(("history", [4.0, 4.4, 4.2], 1.0, 500.0, 3, sd * 100 + 81, 2))
    runs.append(("history", [5.0, 4.6, 4.8], 0.9, 300.0, 5, sd * 100 + 82, 1))
    if tier == "thorough":
        runs += [("history", [4.5, 4.2, 4.8], sf, mf, 4, sd * 100 + 90 + i, 1 + i % 2) for i, (sf, mf) in enumerate([(1.0, 200.0), (1.0, 1e3), (0.9, 300.0), (1.1, 500.0), (0.8, 2e3), (1.0, 5e4)])]
        runs += [("sizes", [7.0, 7.0, 7.0], sf, mf, 3, sd * 100 + 70 + i, False) for i, (sf, mf) in enumerate([(1.0, 1e3), (1.2, 1e3), (0.8, 5e4), (1.0, 5e4)])]
        runs += [("rebuild", [3.5, 3.5, 3.5], sf, 5e4, nr, sd * 100 + 60 + i, False) for i, (sf, nr) in enumerate([(1.0, 2), (1.0, 3), (0.8, 4), (1.2, 5), (1.0, 1), (0.8, 2)])]
        runs += [(k, b, sf, mf, nr, sd * 100 + 10 + i, g) for i, (k, b, sf, mf, nr, g) in enumerate(
            [(k, b, sf, mf, nr, g) for k in ("melt", "mix") for b in ([3.0, 3.0, 3.0], [2.7, 3.1, 3.3]) for sf in (0.8, 1.0, 1.2)
             for mf, nr, g in ((3000.0, 3, False), (1e3, 5, True))])]
    results, run_of = [], []
    for rn, out in zip(runs, c.pmap(_real_run, runs)):
        for part in (out["multi"] if "multi" in out else [out]):
            results.append(part)
            if not ("error" in part or "noverdict" in part or part.get("error_in_code")):
                run_of.append(rn)        # run_of[i] = run tuple of the i-th trace handed to WalkTrace
    nhist = sum(1 for rn in run_of if rn[0] == "history")
    ck.extra["history_system_traces"] = nhist
    rtr = c17.collect(ck, results, "real runs")      # exceptions of the code become violations here; the requirement below comes after them
    ck.require(nhist >= 4, "too few systems of gen_coords histories were recorded: %d" % nhist)
    nplace = sum(1 for t in rtr for e in t["evs"] if e["ev"] in ("ok", "root"))
    ck.extra["monitored_placements"] = nplace
    if ck.require(bool(rtr) and nplace > 100, "too few monitored placements: %d" % nplace):
        c17_prop_ck = ck
        wdv = c.workdir("C05", "real")
        # the traces are validated in batches of at most 12 (one TLC run each): memory and time of a run stay bounded in the thorough tier
        rej = {}
        for b0 in range(0, len(rtr), 12):
            f = wdv / ("traces_%d.json" % b0)
            f.write_text(json.dumps(rtr[b0:b0 + 12]))
            res = c.tlc("WalkTrace", "Walk_trace.cfg", workers=1, env={"TRACE_FILE": str(f)}, check=False, timeout=3000)
            brej = {}
            for r in res.tagged("REJECTED"):
                brej.update({int(t) + b0: int(m) for t, m in r})
            if res.rc != 0 and not brej and not res.inv_violated:
                raise c.MachineryError("WalkTrace failed: %s" % res.out[-2000:])
            rej.update(brej)
            ck.add_tlc(res)
        ck.traces += len(rtr) - len(rej)
        for tid, matched in sorted(rej.items()):
            ev = rtr[tid - 1]["evs"][matched] if matched < len(rtr[tid - 1]["evs"]) else None
            rn = run_of[tid - 1] if tid - 1 < len(run_of) else None
            ck.violation({"kind": "real run", "run": rn, "event": ev, "matched": matched},
                         what="real gen_coords run %s rejected after %d events; next event %s" % (rn or "", matched, json.dumps(ev)[:500]))
        ck.sample({"monitored placement": next(e for e in rtr[0]["evs"] if e["ev"] == "ok")})
    ck.exhaustive = True
    return ck.finish()


def replay(path):
    doc = json.loads(open(path).read())
    case = doc["case"]
    if case["kind"] == "lattice replay":
        kind, msg = _lattice_replay(case["case"])
        print("replayed:", kind, msg)
        return 1 if kind == "diff" else 0
    if case["kind"] == "real run" and case.get("run"):
        out = _real_run(tuple(case["run"]))
        parts = out["multi"] if "multi" in out else [out]
        bad = [e for o in parts for e in o.get("evs", []) if e.get("obs") and not all(e["obs"].values())]
        print("replayed: %d placements fail the monitor" % len(bad), bad[:1])
        return 1 if bad or any(o.get("error_in_code") for o in parts) else 0
    print("no replay for kind", case["kind"])
    return 0
