"""X04 (extension, DESIGN 9 / 10.4) - ligand annotation life cycle of gen_coords (-lig): parse -> find -> annotate -> build -> split -> write.

Design level: spec/Ligands.tla (P- and I-layer), LigandsMC.tla (families A-D, witnesses), one TLC run proves the laws on every
behaviour and exports it (LigandsExport), one run refutes every deviation flag, one refutes the expectations the code does not meet.
S->I: exported behaviours are rendered as real .top / .gro files and option strings and run through the real gen_coords (walk stubbed
or real); wrappers give one event per I-layer action, compared action by action.
I->S: random systems beyond the bound through the real gen_coords with the real random walk, validated in batch by LigandsTrace.
"""
import json
import random
import time
from pathlib import Path

from .. import common as c
from .. import lig_util as lu

PROP = "X04"
SIG_CHAIN = "chained-ligand"
FLAGS = ["KeepNode", "Order", "FirstOnly", "WildMismatch", "NoCopyBack", "ZipTrunc", "PerMolCount", "Chain_Crash", "Chain_Near", "Chain_Err"]
EXPECTATIONS = {
    "ExpLigandWhole": "a ligand molecule is moved as a whole - refuted: only the residues the ligand side selects are placed next to the host, the "
                      "other residues of that molecule keep the position of the molecule's own, independent random walk (-lig H-RA#3:K-KA tears K apart)",
    "ExpNoGhost": "a ligand is built once - refuted: the ligand molecule is ALSO built on its own by the random walk; that position stays in the "
                  "neighbour engine for the rest of the build (excluded volume where nothing ends up) and is overwritten at the split",
    "ExpSelectsSomething": "an option that selects nothing is rejected - refuted: unknown host molecule name, host residue that does not exist, or a "
                           "ligand residue name that does not exist are silently ignored (the ligand is then placed like any other molecule)",
    "ExpOncePerLigand": "a ligand residue is attached once - refuted: two options may name the same ligand molecule; it gets two copies and ends at "
                        "the copy handed over last (molecule order, then node order)",
    "ExpMismatchIsIOError": "more host residues than ligand molecules (or an unknown ligand name, or a host index beyond the list) is reported as an "
                            "input error - refuted: bare IndexError 'list index out of range' from AnnotateLigands.__init__ / run_system",
}
TYPES_RANDOM = {
    "PA": {"res": [{"rn": "RA", "id": 1}, {"rn": "RB", "id": 2}, {"rn": "RA", "id": 3}, {"rn": "RC", "id": 4}], "edges": [[1, 2], [2, 3], [3, 4]]},
    "PB": {"res": [{"rn": "RB", "id": 1}, {"rn": "RB", "id": 2}, {"rn": "RA", "id": 3}, {"rn": "RD", "id": 4}, {"rn": "RA", "id": 5}],
           "edges": [[1, 2], [2, 3], [2, 4], [4, 5]]},
    "PC": {"res": [{"rn": "RA", "id": 3}, {"rn": "RE", "id": 4}, {"rn": "RA", "id": 5}], "edges": [[1, 2], [2, 3]]},
    "PD": {"res": [{"rn": "RC", "id": 1}, {"rn": "RA", "id": 2}, {"rn": "RB", "id": 3}, {"rn": "RC", "id": 4}, {"rn": "RB", "id": 5}, {"rn": "RA", "id": 6}],
           "edges": [[1, 2], [2, 3], [3, 4], [4, 5], [5, 6]]},
    "LA": {"res": [{"rn": "XA", "id": 1}], "edges": []},
    "LB": {"res": [{"rn": "XB", "id": 1}], "edges": []},
    "LC": {"res": [{"rn": "YA", "id": 1}, {"rn": "YB", "id": 2}], "edges": [[1, 2]]},
    "LD": {"res": [{"rn": "ZA", "id": 1}, {"rn": "ZB", "id": 2}, {"rn": "ZA", "id": 3}], "edges": [[1, 2], [2, 3]]},
    "W": {"res": [{"rn": "WA", "id": 1}], "edges": []},
}
HOSTS, LIGS = ["PA", "PB", "PC", "PD"], ["LA", "LB", "LC", "LD"]


# =========================================================================== S->I

def case_key(case):
    return json.dumps(case, sort_keys=True)


def describe(case):
    return {"molecules": case["mols"], "lig": [":".join(x) for x in lu.lig_args(case)], "given": case.get("given", 0)}


def _replay_chunk(arg):
    wd, types, items = arg
    out = []
    for idx, case, walk, seed in items:
        res = lu.run_case(types, case, wd, walk=walk, seed=seed, variant=seed % 4)
        out.append((idx, res["events"], res["noverdict"], res["raw"]))
    return out


def run_cases(types, items, name):
    """items: [(idx, case, walk, seed)] -> {idx: (events, noverdict, raw)}"""
    wd = c.workdir(PROP, name)
    parts = []
    for i, ch in enumerate(c.chunks(items, c.NPROC * 3)):
        if ch:
            parts.append((str(wd / str(i)), types, ch))
    res = {}
    for part in c.pmap(_replay_chunk, parts):
        for idx, events, nov, raw in part:
            res[idx] = (events, nov, raw)
    return res


def strip(events):
    return [{k: v for k, v in e.items() if k != "msg"} for e in events]


def judge_replays(ck, types, groups, runs, label):
    """groups: [{case, intended: hist, asis: hist | None, walk, seed}]"""
    nov = 0
    for i, g in enumerate(groups):
        events, noverdict, raw = runs[i]
        if noverdict:
            nov += 1
            continue
        ck.replayed += 1
        ck.evaluations += len(events)
        ck.nontrivial.add(case_key(g["case"]))
        bad = lu.compare(g["case"], g["intended"], events, g["walk"])
        if bad is None:
            continue
        doc = {"kind": "S->I replay", "types": types, "case": g["case"], "walk": g["walk"], "seed": g["seed"], "intended": g["intended"],
               "asis": g["asis"], "events": strip(events)}
        if g["asis"] is not None and lu.compare(g["case"], g["asis"], events, g["walk"]) is None:
            ck.violation(doc, sig=SIG_CHAIN, what="%s: a molecule is host and ligand at once; the code neither rejects it nor handles it (%s)" % (
                json.dumps(describe(g["case"])), "KeyError in split_ligands" if any(e["op"] == "fail" for e in events)
                else "a ligand is left where its anchor WAS built"))
            continue
        if g["asis"] is not None and SIG_CHAIN in ck._known:
            bad = lu.compare(g["case"], g["asis"], events, g["walk"])        # report against the behaviour recorded for the tree
        ck.violation(doc, what="%s (%s walk): step %d: %s" % (json.dumps(describe(g["case"])), g["walk"], bad[0], bad[1]))
    return nov


def select_replays(cases, quick, sd):
    """group exported behaviours by case; quick: every case with two options / supplied coordinates / chained ligation, a stratified seeded
    sample of the one-option families; thorough: all"""
    by = {}
    for k in cases:
        g = by.setdefault(case_key(k["case"]), {"case": k["case"], "intended": None, "asis": None, "chained": k["chained"], "err": k["perr"],
                                                "nattach": k["nattach"]})
        if k["dev"]:
            g["asis"] = k["hist"]
        else:
            g["intended"] = k["hist"]
    groups = [g for g in by.values() if g["intended"] is not None]
    if not quick:
        return groups, len(groups)
    rng = random.Random(sd)
    keep, strata = [], {}
    for g in groups:
        cs = g["case"]
        if g["chained"] or cs["given"] or len(cs["ligs"]) != 1:
            if len(cs["ligs"]) == 2 and not g["chained"] and not cs["given"]:
                strata.setdefault(("two", tuple(g["err"]), len(g["intended"])), []).append(g)
            else:
                keep.append(g)
        else:
            strata.setdefault((tuple(g["err"]), len(g["intended"]), g["nattach"], len(cs["mols"])), []).append(g)
    for key in sorted(strata, key=str):
        L = strata[key]
        keep += rng.sample(L, min(len(L), 40 if key[0] != "two" else 60))
    return keep, len(groups)


# =========================================================================== I->S

def count_hosts(types, mols, h):
    n = 0
    for i, m in enumerate(mols):
        if h["hasMol"] and m != h["mol"]:
            continue
        if h["hasIdx"] and i != h["idx"]:
            continue
        for r in types[m]["res"]:
            if (not h["hasRn"] or r["rn"] == h["rn"]) and (not h["hasId"] or r["id"] == h["id"]):
                n += 1
    return n


def sp(mol=None, idx=None, rn=None, rid=None):
    return {"hasMol": mol is not None, "mol": mol or "", "hasIdx": idx is not None, "idx": idx or 0, "hasRn": rn is not None, "rn": rn or "",
            "hasId": rid is not None, "id": rid or 0}


def random_case(rng):
    T = TYPES_RANDOM
    mols = [rng.choice(HOSTS) for _ in range(rng.randint(1, 3))] + [rng.choice(LIGS) for _ in range(rng.randint(2, 5))] \
        + ["W"] * rng.randint(0, 2)
    rng.shuffle(mols)
    ligs = []
    for _ in range(rng.choice([1, 1, 2, 2, 3])):
        mode = rng.random()
        if mode < 0.72:
            hosts_here = [m for m in mols if m in HOSTS]
            if rng.random() < 0.12:                               # a ligand type as host: chained ligation
                hosts_here = [m for m in mols if m in ("LC", "LD")] or hosts_here
            hname = rng.choice(hosts_here)
            res = rng.choice(T[hname]["res"])
            rsel = rng.choice(["rn", "id", "both", "both", "none"])
            msel = rng.choice(["name", "name", "nameidx", "idx", "none"])
            hidx = rng.choice([i for i, m in enumerate(mols) if m == hname])
            h = sp(mol=hname if msel in ("name", "nameidx") else None, idx=hidx if msel in ("nameidx", "idx") else None,
                   rn=res["rn"] if rsel in ("rn", "both") else None, rid=res["id"] if rsel in ("id", "both") else None)
            need = count_hosts(T, mols, h)
            lname = rng.choice([m for m in mols if m in LIGS and m != hname] or LIGS)
            have = sum(1 for m in mols if m == lname)
            if have < need and need <= 6 and rng.random() < 0.85:
                for _ in range(need - have):
                    mols.insert(rng.randint(0, len(mols)), lname)
                # indices moved: re-anchor an index written on the host side
                if h["hasIdx"]:
                    cand = [i for i, m in enumerate(mols) if m == hname]
                    h["idx"] = rng.choice(cand)
            lsel = rng.choice(["name", "name", "name", "nameidx", "idx", "namern", "nameid"])
            lidx = rng.choice([i for i, m in enumerate(mols) if m == lname] or [0])
            lres = rng.choice(T[lname]["res"])
            l = sp(mol=lname if lsel != "idx" else None, idx=lidx if lsel in ("nameidx", "idx") else None,
                   rn=lres["rn"] if lsel == "namern" else None, rid=lres["id"] if lsel == "nameid" else None)
        else:
            names = sorted(set(mols)) + ["QQ"]
            rns = sorted({r["rn"] for t in T.values() for r in t["res"]})

            def rnd(side):
                return sp(mol=rng.choice(names) if rng.random() < (0.8 if side == "l" else 0.6) else None,
                          idx=rng.randint(0, len(mols)) if rng.random() < 0.3 else None,
                          rn=rng.choice(rns) if rng.random() < 0.4 else None, rid=rng.randint(1, 6) if rng.random() < 0.3 else None)
            h, l = rnd("h"), rnd("l")
        ligs.append({"h": h, "l": l})
    given = rng.randint(1, len(mols)) if rng.random() < 0.3 else 0
    given = min(given, 9)
    return {"mols": mols, "ligs": ligs, "given": given}


def to_trace(case, events):
    evs = []
    for e in events:
        x = {"op": e["op"], "a": e["a"], "d": e["d"], "e": e["e"], "ok": bool(e.get("ok", True))}
        if e["op"] == "parse":
            x["sp"] = e["sp"]
        if e["op"] == "build":
            x["near"] = e.get("near", [])
        if e["op"] == "fail":
            x["ph"] = e["ph"]
        evs.append(x)
    return {"case": case, "events": evs}


def _tlc_traces(types, traces, name, asis):
    wd = c.workdir(PROP, name)
    f = wd / "traces.json"
    f.write_text(json.dumps({"types": types, "asis": bool(asis), "traces": traces}))
    res = c.tlc("LigandsTrace", "Lig_trace.cfg", workers=1, env={"TRACE_FILE": str(f)}, check=False, timeout=1800)
    rej = res.tagged("REJECTED")
    if (res.rc != 0 and not rej) or res.inv_violated:
        raise c.MachineryError("LigandsTrace failed (%s): %s" % (res.inv_violated, res.out[-3000:]))
    rejected = {}
    for r in rej:
        rejected.update({int(t): int(m) for t, m in r})
    skipped = set()
    for s in res.tagged("SKIPPED"):
        skipped |= {int(t) for t in s}
    return res, rejected, skipped


def validate(ck, types, traces, name, expect_reject=False):
    """pass 1: the intended design.  Traces rejected there are validated again against the I-layer with the deviation of the recorded finding
    chained-ligand (only while it is listed as known): accepted there = exactly that finding."""
    res, rejected, skipped = _tlc_traces(types, traces, name, False)
    if expect_reject:
        return rejected
    ck.add_tlc(res)
    if rejected and SIG_CHAIN in ck._known:
        tids = sorted(rejected)
        res2, rej2, _ = _tlc_traces(types, [traces[t - 1] for t in tids], name + "_asis", True)
        ck.add_tlc(res2)
        for k, t in enumerate(tids, 1):
            if k not in rej2:
                del rejected[t]
                tr = traces[t - 1]
                ck.violation({"kind": "I->S trace", "types": types, "case": tr["case"], "seed": tr.get("seed", 0)}, sig=SIG_CHAIN,
                             what="%s: a molecule is host and ligand at once (accepted only with the deviation Chain)" % json.dumps(describe(tr["case"])))
    ck.traces += len(traces) - len(rejected) - len(skipped)
    ck.extra["traces_outside_domain_skipped"] = ck.extra.get("traces_outside_domain_skipped", 0) + len(skipped)
    for tid, matched in sorted(rejected.items()):
        tr = traces[tid - 1]
        nxt = tr["events"][matched] if matched < len(tr["events"]) else None
        ck.violation({"kind": "I->S trace", "types": types, "case": tr["case"], "seed": tr.get("seed", 0), "events": tr["events"], "matched_events": matched},
                     what="recorded run %s rejected by Ligands after %d matched events; next event %s" % (
                         json.dumps(describe(tr["case"])), matched, json.dumps(nxt)[:400]))
    return rejected


# =========================================================================== entry points

def run(tier):
    ck = c.Check(PROP, tier)
    quick = tier == "quick"
    sd = c.seed()
    ck.rule = ("S->I: every behaviour of the families of LigandsMC (A: molecule lists of length <= 3 (thorough 4) over 4 types x every omission pattern "
               "and value of the molecule fields on both sides; B: every pattern of the residue fields; C: ordered pairs of 12 options on 10 lists; "
               "D: coordinates supplied for the first 0..N molecules), one case per behaviour, compared after every action; distinct = case. "
               "I->S: random systems (4-14 molecules over 9 types with up to 6 residues, 1-3 options with random omissions, supplied prefixes) "
               "through the real gen_coords with the real random walk")
    ck.assumptions = ["single-bead residues (atom position = residue position after backmapping); residue positions are identified by the node "
                      "they were built for (token), recovered from the coordinates recorded just before split_ligands",
                      "a molecule that is its own ligand is outside the domain (the code's behaviour depends on dict iteration details)",
                      "the random walk itself (overlaps, rewinds) is C17/C05; here a dilute 9 nm box is used and only the result of the build enters",
                      "numeric monitor: |min-image distance - step_fudge * (vol_host + vol_ligand) / 2| < 1e-6"]
    w = max(1, min(4, c.NPROC - 2))
    ck.stage("TLC: laws + export, sensitivity, expectations (concurrently)")
    jobs = [("LigandsExport", "Lig_export.cfg" if quick else "Lig_export_full.cfg", {"workers": w, "timeout": 3000}),
            ("LigandsMC", "Lig_dev.cfg", {"workers": 1, "check": False, "extra": ("-continue",)}),
            ("LigandsMC", "Lig_exp.cfg", {"workers": 1, "check": False, "extra": ("-continue",)})]
    ex, dev, exp = c.tlc_many(jobs, workers_each=1)
    ck.model_must_hold(ex, "ErrLaw / AttachLaw / AnnotateOnlyAdds / Restored / HandBack / Untouched / NearFinalAnchor / OutputLaw / NoCrash")
    ck.add_tlc(dev)
    ck.add_tlc(exp)
    for fl in FLAGS:
        if "Refute_" + fl not in dev.inv_violated:
            raise c.MachineryError("sensitivity: deviation %s was not refuted by TLC (%s)" % (fl, dev.errors[:2]))
    ck.extra["deviations_refuted"] = FLAGS
    for e, txt in EXPECTATIONS.items():
        if e not in exp.inv_violated:
            raise c.MachineryError("expectation %s was expected to be refuted on the model of the code" % e)
    ck.note("X04 expectations refuted by TLC on the life cycle as it is (notes; each confirmed on the real code by the replays): "
            + "; ".join("(%d) %s" % (i + 1, t) for i, t in enumerate(EXPECTATIONS.values())))
    types = ex.tagged("TYPES")[0]
    cases = ex.cases()
    if len(cases) < 5000:
        raise c.MachineryError("LigandsExport produced %d behaviours" % len(cases))
    ops = {}
    for k in cases:
        for h in k["hist"]:
            key = h["op"] + ("!" if h["e"] else "")
            ops[key] = ops.get(key, 0) + 1
    ck.actions.update(ops)
    for op in ("parse", "parse!", "find", "find!", "initend", "initend!", "connect", "connect!", "build", "split", "split!", "backmap", "write"):
        ck.require(ops.get(op, 0) > 0, "Ligands action %s never taken in the exported behaviours (vacuous model)" % op)
    ck.extra["behaviours_exported"] = len(cases)
    ck.extra["behaviours_by_error"] = {}
    for k in cases:
        key = "/".join(k["err"]) or "ok"
        ck.extra["behaviours_by_error"][key] = ck.extra["behaviours_by_error"].get(key, 0) + 1
    ck.extra["chained_cases"] = sum(1 for k in cases if k["chained"] and not k["dev"])

    # ---- S->I
    groups, total = select_replays(cases, quick, sd)
    rng = random.Random(sd + 1)
    items = []
    for i, g in enumerate(groups):
        cs = g["case"]
        special = g["chained"] or cs["given"] or len(cs["ligs"]) != 1
        g["walk"] = "real" if (special or rng.random() < 0.25) else "stub"
        g["seed"] = sd * 1000 + i
        items.append((i, cs, g["walk"], g["seed"]))
    ck.stage("replay %d of %d cases (%d with the real random walk)" % (len(groups), total, sum(1 for g in groups if g["walk"] == "real")))
    runs = run_cases(types, items, "replay")
    nov = judge_replays(ck, types, groups, runs, "export")
    ck.extra["replays_real_walk"] = sum(1 for g in groups if g["walk"] == "real")
    ck.extra["replays_without_verdict"] = nov
    ck.require(ck.replayed >= (1200 if quick else 8000), "only %d cases were replayed" % ck.replayed)
    ck.require(nov <= max(3, len(groups) // 50), "%d replays ended without verdict (time-out in the random walk)" % nov)
    mid = next((g for g in groups if g["nattach"] >= 2 and len(g["case"]["ligs"]) == 2 and not g["chained"] and not g["err"][0]), groups[0])
    ck.sample({"S->I case": describe(mid["case"]), "actions": [[h["op"], h["a"], h["d"]] for h in mid["intended"]]})
    ck.extra["chained_cases_replayed"] = sum(1 for g in groups if g["chained"])

    # ---- I->S
    n = 300 if quick else 3000
    ck.stage("random systems beyond the bound: %d runs of gen_coords with the real random walk" % n)
    rg = random.Random(sd + 17)
    rcases = [random_case(rg) for _ in range(n)]
    runs = run_cases(TYPES_RANDOM, [(i, cs, "real", sd * 7919 + i) for i, cs in enumerate(rcases)], "random")
    traces, nov = [], 0
    for i, cs in enumerate(rcases):
        events, noverdict, raw = runs[i]
        if noverdict:
            nov += 1
            continue
        t = to_trace(cs, events)
        t["seed"] = sd * 7919 + i
        traces.append(t)
        ck.evaluations += len(events)
        ck.nontrivial.add(case_key(cs))
    ck.require(nov <= max(3, n // 50), "%d random runs ended without verdict" % nov)
    done = [t for t in traces if t["events"] and t["events"][-1]["op"] == "write"]
    with_lig = [t for t in done if any(e["op"] == "connect" and e["d"] for e in t["events"])]
    ck.extra["random_runs"] = {"total": len(traces), "completed": len(done), "completed_with_ligands": len(with_lig),
                               "rejected_by_the_code": sum(1 for t in traces if t["events"] and t["events"][-1]["op"] == "fail"),
                               "max_molecules": max(len(t["case"]["mols"]) for t in traces),
                               "with_supplied_coordinates": sum(1 for t in with_lig if t["case"]["given"])}
    ck.require(len(with_lig) >= n // 6, "only %d of %d random runs completed with at least one ligand attached" % (len(with_lig), n))
    big = max(with_lig or traces, key=lambda t: len(t["events"]))
    ck.sample({"I->S case": describe(big["case"]), "events": [[e["op"], e["a"], e["d"]] for e in big["events"]][:30]})
    validate(ck, TYPES_RANDOM, traces, "random_traces")
    ck.require(ck.extra.get("traces_outside_domain_skipped", 0) <= n // 4, "too many random inputs outside the domain")
    # binding demonstration: one handed-over position changed in one recorded trace -> must be rejected
    demo = None
    for t in with_lig:
        idx = [i for i, e in enumerate(t["events"]) if e["op"] == "split" and any(x[2] != 0 for x in e["d"])]
        if idx and not any(e["op"] == "fail" for e in t["events"]):
            demo = json.loads(json.dumps(t))
            ev = demo["events"][idx[0]]
            x = next(x for x in ev["d"] if x[2] != 0)
            x[3] += 1                      # the ligand received the position of ANOTHER node
            break
    if ck.require(demo is not None, "no trace to corrupt"):
        rej = validate(ck, TYPES_RANDOM, [demo], "corrupt", expect_reject=True)
        if ck.require(1 in rej, "binding demonstration failed: a trace with a corrupted hand-over was accepted"):
            ck.extra["binding_demo"] = "trace with one corrupted handed-over position rejected after %d matched events" % rej[1]
    ck.exhaustive = True
    return ck.finish()


def replay(path):
    doc = json.loads(open(path).read())
    case = doc["case"]
    ck = c.Check(PROP, "quick")
    kind = case.get("kind")
    wd = c.workdir(PROP, "replay_one")
    if kind == "S->I replay":
        res = lu.run_case(case["types"], case["case"], wd, walk=case["walk"], seed=case["seed"], variant=case["seed"] % 4)
        g = {"case": case["case"], "intended": case["intended"], "asis": case.get("asis"), "walk": case["walk"], "seed": case["seed"]}
        judge_replays(ck, case["types"], [g], {0: (res["events"], res["noverdict"], res["raw"])}, "replay")
        for e in res["events"]:
            print("  ", {k: e[k] for k in ("op", "a", "d", "e") if k in e}, e.get("msg", ""))
    else:
        res = lu.run_case(case["types"], case["case"], wd, walk="real", seed=case.get("seed", 0), variant=case.get("seed", 0) % 4)
        for e in res["events"]:
            print("  ", {k: e[k] for k in ("op", "a", "d", "e") if k in e}, e.get("msg", ""))
        validate(ck, case["types"], [to_trace(case["case"], res["events"])], "replay_traces")
    print("replayed: %s" % ("still fails" if ck.violations else ("known finding reproduced" if ck.known else "passes now")))
    return 1 if ck.violations else 0
