"""C13 - the generated topology is independent of labelling, ordering and run history.

spec/IndependenceBase.tla   data model + P-layer: PResult(case), a function of the case alone (residue graph over residue-id positions,
                            SET of definitions); Presentations / Admissible / MustKeep: which orders present the same input
spec/Independence.tla       I-layer: Load, MatchNodes, Tag, AddBlock, BeginLink/TryMatch/EndLink, WriteBack, ApplyMods, Finish with every
                            iteration order the code does not fix left nondeterministic; CONFLUENCE = every terminal state projects to PResult
spec/IndependenceHist*.tla  process state across gen_params calls; HistoryIndependent
S->I : TLC exports every base case with its declared result and its labellings / orderings (node keys incl. sets without 0,
       non-contiguous and string keys, node insertion orders, edge orders and orientations, presentations of the definitions in files);
       every variant is rendered as real files and run through the real pipeline; the projection must equal the declared result.
       All histories of length <= 3 over three (thorough: four, one failing) inputs run in ONE process each and must equal the
       fresh-process runs, files byte-identical apart from the command-line header.
I->S : seeded random larger cases (5-8 residues, random force fields, random relabelling / presentations), relabelled residue graphs of
       the repository's own force fields, random longer histories over library / test-data / catalogue inputs; TLC validates the batch
       (IndependenceTrace: LabelOK + Admissible + projection = PResult; digests of relabelled runs = base; history machine).
"""
import hashlib
import json
import os
import random
import subprocess
import sys
from pathlib import Path

from .. import common as c
from .. import indep_util as iu

PROP = "C13"
# F31, F32, F33 are REPAIRED (known_findings.jsonl): their deviation flags stay as sensitivity runs, nothing is classified as known any more
REPAIRED = {"dfsTreeFrag": "F31", "fragIdOrder": "F32", "itpGlobal": "F33"}
DEVS = [("Ind_dev_sliceany.cfg", "fragment nodes sliced in set-iteration order (F15, repaired)"),
        ("Ind_dev_key0.cfg", "terminal modification looked up by node key 0 / resid-1 (F9, repaired)"),
        ("Ind_dev_addany.cfg", "blocks added in node order instead of residue-id order"),
        ("Ind_dev_firstmatch.cfg", "a link applied to the first match found only"),
        ("Ind_dev_orient.cfg", "stored edge orientation decides the link direction"),
        ("Ind_dev_oncegroup.cfg", "a link applied once per set of residues: one orientation of a `*` link lost (seed-C13-2)"),
        ("Ind_dev_replacevisible.cfg", "replaced attribute values mirrored into the residue fragments: later links select on them (seed5-C13-2)"),
        ("Ind_dev_namecache.cfg", "residue-name combinations without link atoms remembered per link: same-named residues differing by a residue-level attribute (seed3-C13-1)"),
        ("Ind_dev_patterncache.cfg", "residue-level matches cached per residue pattern of a link, stored in the node numbering of the link that filled the cache (seed7-C13-1)"),
        ("Ind_dev_defineleak.cfg", "parameter macros of a polyply .itp kept for the files read later and substituted there: file order (seed7-C13-2)"),
        ("Ind_dev_dfstree.cfg", "fragments = components over depth-first tree edges (F31, repaired)"),
        ("Ind_dev_fragid.cfg", "correspondences stored in merge order, looked up by fragment id (F32, repaired)"),
        ("Ind_dev_itpglobal.cfg", "finishing an .itp re-tags the versions of all links read so far (F33, repaired)")]
HDEVS = [("Ind_hist_dev_cacheff.cfg", "loaded force fields cached between calls: retagged exclusion distances / citation sets leak"),
         ("Ind_hist_dev_append.cfg", "output appended to an existing file"),
         ("Ind_hist_dev_flushlate.cfg", "deferred writer queue flushed by the next call"),
         ("Ind_hist_dev_inpathleak.cfg", "library files appended to the (mutable default) inpath list of gen_params (seed-C13-1)"),
         ("Ind_hist_dev_readercache.cfg", "file content cached by path: a file rewritten between calls is read with its old content (seed3-C13-2)"),
         ("Ind_hist_dev_defineleak.cfg", "parameter macros of a polyply .itp kept in a class-level table of the parser: substituted in later calls (seed7-C13-2)")]


def _fix_ffs(ffs):
    for F in ffs:
        for l in F["links"]:
            if not isinstance(l["rep"], list):
                l["rep"] = []
            if not isinstance(l["del"], list):
                l["del"] = []
        for b in F["blocks"]:
            if not isinstance(b["cite"], list):
                b["cite"] = []
            if not isinstance(b.get("macros", []), list):
                b["macros"] = []
        if not isinstance(F["bib"], list):
            F["bib"] = []
    return ffs


# ------------------------------------------------------------------ S -> I: variants

def classify(obs, exp, vrec, written=False):
    """ok / bad (+ a hint when the deviating observation equals what the repaired finding F33 would give for this very presentation);
    written: the observation was read back from the .itp, whose writer lists a-b / b-a (and reversed angles) in one canonical order"""
    if written:
        obs, exp = iu.canon(obs), iu.canon(exp)
    if iu.same(obs, exp):
        return "ok", None
    if vrec.get("itpdiffers") and iu.same(obs, iu.canon(iu.expected_proj(vrec["itpout"])) if written else iu.expected_proj(vrec["itpout"])):
        return "bad", "itpGlobal"
    return "bad", None


def _replay_chunk(arg):
    ffs, items, wdname, gp_mod = arg
    c.quiet()
    wd = c.workdir(PROP, "replay_%s" % wdname)
    out = []
    stats = {"direct": 0, "gen_params": 0}
    for case, exp, vidx, vrec in items:
        F = ffs[case["ff"] - 1]
        var = vrec["var"]
        try:
            obs = iu.run_direct(case, F, var, wd, tag="v%d_%d" % (case["id"], vidx), reuse_files=True)
        except Exception as exc:  # rendering failed: harness problem
            return {"machinery": "%s: %s (case %s variant %s)" % (type(exc).__name__, exc, case["id"], vidx)}
        stats["direct"] += 1
        kind, flag = classify(obs, exp, vrec)
        if kind != "ok":
            out.append((case["id"], vidx, "direct", kind, flag, iu.diff(obs, exp)[:3], {k: obs.get(k) for k in ("err", "msg", "atoms", "ints", "nrexcl", "cites")}))
        if var["route"] == "json" and (vidx % gp_mod == 0) or vidx == 0:
            gv = dict(var)
            gv["route"] = "json"
            obs2, path = iu.run_gen_params(case, F, gv, wd, tag="g%d_%d" % (case["id"], vidx))
            stats["gen_params"] += 1
            kind2, flag2 = classify(obs2, exp, vrec, written=True)
            if kind2 != "ok":
                out.append((case["id"], vidx, "gen_params", kind2, flag2, iu.diff(iu.canon(obs2), iu.canon(exp))[:3], {k: obs2.get(k) for k in ("err", "msg", "atoms", "ints", "nrexcl", "cites")}))
            elif kind == "ok" and not obs.get("err") and not iu.same(iu.canon(obs), iu.canon(obs2)):
                out.append((case["id"], vidx, "gen_params", "bad", None, ["written .itp differs from the molecule built by the processors: " + "; ".join(iu.diff(iu.canon(obs2), iu.canon(obs), "file", "molecule")[:2])], obs2))
    return {"res": out, "stats": stats}


def replay_variants(ck, ex, tier):
    ffs = _fix_ffs(ex.tagged("FFS")[0])
    cases = sorted(ex.cases(), key=lambda x: x["case"]["id"])
    if len(cases) < 20:
        raise c.MachineryError("too few exported base cases: %d" % len(cases))
    items = []
    byid = {}
    for cs in cases:
        case = cs["case"]
        byid[case["id"]] = cs
        exp = iu.expected_proj(cs["expected"])
        for vidx, vrec in enumerate([cs["base"]] + list(cs["variants"])):
            items.append((case, exp, vidx, vrec))
    ck.extra["exported_variants"] = len(items)
    fams = {}
    for it in items:
        fams[it[3]["var"]["fam"]] = fams.get(it[3]["var"]["fam"], 0) + 1
    ck.extra["variants_by_family"] = fams
    for fam in ("keys", "nodes", "edges", "defs", "mixed", "mixedjson"):
        if not fams.get(fam):
            raise c.MachineryError("no exported variant of family %s" % fam)
    gp_mod = 4 if tier == "quick" else 1
    parts = [(ffs, ch, "p%d" % k, gp_mod) for k, ch in enumerate(c.chunks(items, c.NPROC * 4))]
    mid = byid[sorted(byid)[len(byid) // 2]]
    ck.sample({"S->I base case": mid["case"], "declared result": {k: mid["expected"][k] for k in ("atoms", "nrexcl")},
               "one of its variants": mid["variants"][len(mid["variants"]) // 2]["var"]})
    for res in c.pmap(_replay_chunk, parts):
        if "machinery" in res:
            raise c.MachineryError(res["machinery"])
        ck.evaluations += res["stats"]["direct"] + res["stats"]["gen_params"]
        ck.actions["replay_direct"] = ck.actions.get("replay_direct", 0) + res["stats"]["direct"]
        ck.actions["replay_gen_params"] = ck.actions.get("replay_gen_params", 0) + res["stats"]["gen_params"]
        for cid, vidx, how, kind, flag, diffs, obs in res["res"]:
            cs = byid[cid]
            vrec = (cs["base"] if vidx == 0 else cs["variants"][vidx - 1])
            ck.violation({"kind": "S->I variant", "how": how, "case": cs["case"], "ff": ffs[cs["case"]["ff"] - 1], "variant": vrec["var"],
                          "expected": cs["expected"], "observed": obs, "differences": diffs},
                         what="case %d (%s), variant %d [%s, %s]: the %s differs from the declared result of the same input%s: %s" % (
                             cid, " ".join(cs["case"]["rn"]), vidx, vrec["var"]["fam"], how, "written .itp" if how == "gen_params" else "built molecule",
                             " (it equals the result of the repaired finding %s for this order of files)" % REPAIRED[flag] if flag else "", "; ".join(diffs)[:400]))
    ck.replayed += len(items)
    for it in items:
        ck.nontrivial.add("v:%d:%d" % (it[0]["id"], it[2]))
    return ffs, byid


# ------------------------------------------------------------------ histories (one process per history)

def _child_env():
    e = dict(os.environ)
    e.update({"PYTHONHASHSEED": "0", "TQDM_DISABLE": "1", "OMP_NUM_THREADS": "1", "OPENBLAS_NUM_THREADS": "1", "MKL_NUM_THREADS": "1",
              "PYTHONDONTWRITEBYTECODE": "1"})
    return e


def _run_history(arg):
    specfile = arg
    try:
        p = subprocess.run([sys.executable, "-m", "harness.indep_util", str(specfile)], cwd=str(c.VERIF), env=_child_env(),
                           capture_output=True, text=True, timeout=600)
    except subprocess.TimeoutExpired:
        return {"machinery": "history process timed out: %s" % specfile}
    for line in p.stdout.splitlines():
        if line.startswith("HISTORY-RESULT "):
            return {"res": json.loads(line[len("HISTORY-RESULT "):])}
    return {"machinery": "history process gave no result (rc=%s): %s" % (p.returncode, (p.stdout + p.stderr)[-800:])}


def prepare_abstract_input(wd, k, case, F, lib=None):
    """render input k (catalogue case) once: residue graph json + the force-field files in base presentation.  Inputs that use the
    same force field use the SAME files (one directory per force field), as two calls on one library would"""
    fd = Path(wd) / ("ff%d" % case["ff"])
    base = [{"syn": f["syn"], "src": i + 1, "defs": f["defs"]} for i, f in enumerate(F["files"])]
    if not fd.exists():
        fd.mkdir(parents=True)
        iu.write_files(fd, F, base, "ff%d" % case["ff"])
    paths = sorted(fd.iterdir(), key=lambda p: p.name)
    d = Path(wd) / ("in%d" % k)
    d.mkdir(parents=True, exist_ok=True)
    var = {"keys": [{"s": False, "v": p} for p in range(case["n"])], "nodeorder": list(range(1, case["n"] + 1)), "eseq": case["E"]}
    jp = d / "seq.json"
    jp.write_text(iu.graph_json(case, var))
    r = {"inpath": [str(p) for p in paths], "seq_file": str(jp), "name": "t", "label": "catalogue case %d (%s)" % (case["id"], " ".join(case["rn"]))}
    mode = lib["mode"] if lib else "all"
    lib = lib["files"] if lib else ()
    if mode == "sub" and any(not paths[i - 1].name.startswith("ff%d_%d_" % (case["ff"], i)) for i in lib):
        raise c.MachineryError("files of force field %d are not in the expected order: %s" % (case["ff"], [p.name for p in paths]))
    if mode == "sub":
        # explicit inpath (a new list per call) holding only the listed files of the force field (the same files on disk for every input)
        r["inpath"] = [str(paths[i - 1]) for i in lib]
        r["label"] += ", files %s of force field %d only" % (list(lib), case["ff"])
    elif mode == "path":
        # the input's definitions are written to ONE path shared with the other inputs of this kind (a file rewritten between calls); the path
        # lives in the directory of the history (history_specs), the content is (re)written by the child process right before the call
        fs = [base[i - 1] for i in lib]
        r = {"inpath": [], "shared": {"name": "shared_ff%d.%s" % (case["ff"], fs[0]["syn"]), "text": "\n".join(iu.render_file(F, f) for f in fs)},
             "seq_file": str(jp), "name": "t",
             "label": "catalogue case %d (%s), definitions = files %s of force field %d written to the shared path" % (case["id"], " ".join(case["rn"]), list(lib), case["ff"])}
    elif mode == "lib":
        # the input names a LIBRARY and passes no inpath: a directory holding exactly the library's files, addressed by its absolute path
        # (load_library joins the name onto its data path; an absolute name stands for itself)
        ld = Path(wd) / ("lib_ff%d_%s" % (case["ff"], "_".join(str(i) for i in lib)))
        if not ld.exists():
            ld.mkdir(parents=True)
            iu.write_files(ld, {**F, "bib": []}, [base[i - 1] for i in lib], "lib")
        r = {"inpath": [], "lib": [str(ld)], "seq_file": str(jp), "name": "t",
             "label": "catalogue case %d (%s) with lib=[files %s of force field %d], default inpath" % (case["id"], " ".join(case["rn"]), list(lib), case["ff"])}
    if case["mods"]:
        r["mods"] = iu.mods_arg(case)
    return r


def history_specs(wd, inputs, hists, tag):
    specs = []
    for k, h in enumerate(hists):
        d = Path(wd) / ("%s%d" % (tag, k))
        d.mkdir(parents=True, exist_ok=True)
        runs = []
        for i in h:
            r = dict(inputs[i - 1])
            if r.get("shared"):
                sp = d / r["shared"]["name"]
                r["inpath"] = [str(sp)]
                r["write"] = [[str(sp), r["shared"]["text"]]]
            r["out"] = str(d / ("out_%d.itp" % i))
            r["argv"] = ["-o", r["out"], "-run", str(len(runs) + 1)]
            runs.append(r)
        f = d / "spec.json"
        f.write_text(json.dumps({"runs": runs}))
        specs.append(f)
    return specs


def result_digest(r):
    if r.get("err"):
        return "ERR:" + r["err"]
    return hashlib.sha1(r["body"].encode()).hexdigest()[:16]


def replay_histories(ck, hres, ffs, tier, wdname="hist", maxlen=3):
    hin = hres.tagged("HINPUTS")
    if not hin:
        raise c.MachineryError("history model exported no inputs")
    hin = hin[0]
    hists = sorted((x for x in hres.tagged("HIST")), key=lambda x: (len(x["h"]), x["h"]))
    need = sum(len(hin) ** k for k in (1, 2, 3))
    if len(hists) == need and maxlen < 3:      # TLC explored all of them; the quick tier runs the shorter ones of this family through the code
        hists = [x for x in hists if len(x["h"]) <= maxlen]
        need = len(hists)
    if len(hists) != need:
        raise c.MachineryError("history model exported %d histories, expected %d" % (len(hists), need))
    wd = c.workdir(PROP, wdname)
    inputs = [prepare_abstract_input(wd, k + 1, x["case"], ffs[x["case"]["ff"] - 1], lib=x.get("lib")) for k, x in enumerate(hin)]
    for k, x in enumerate(hin):
        if x["expected"]["err"]:
            inputs[k]["declared_failure"] = x["expected"]["err"]      # the input whose declared result is a failure (thorough tier)
    specs = history_specs(wd, inputs, [x["h"] for x in hists], "h")
    results = c.pmap(_run_history, specs)
    fresh = {}
    for x, r in zip(hists, results):
        if "machinery" in r:
            raise c.MachineryError(r["machinery"])
        if len(x["h"]) == 1:
            fresh[x["h"][0]] = r["res"][0]
    # the fresh-process run of every input is the declared result
    for i, x in enumerate(hin):
        exp = iu.expected_proj(x["expected"])
        obs = fresh[i + 1]
        d = iu.diff(iu.canon(obs), iu.canon(exp))
        if d:
            ck.violation({"kind": "history input", "input": x["case"], "expected": x["expected"], "observed": {k: obs.get(k) for k in ("err", "msg", "atoms", "ints", "nrexcl", "cites")}},
                         what="fresh-process gen_params run of %s differs from the declared result: %s" % (inputs[i]["label"], "; ".join(d)[:300]))
    nruns = 0
    for x, r in zip(hists, results):
        ck.nontrivial.add("h:%s:" % wdname + ",".join(str(i) for i in x["h"]))
        for k, i in enumerate(x["h"]):
            nruns += 1
            if not x["same"][k]:
                raise c.MachineryError("the history model itself says run %d of history %s differs from a fresh process" % (k + 1, x["h"]))
            a, b = r["res"][k], fresh[i]
            probs = iu.diff(a, b, "in this history", "in a new process")
            if not probs and not a.get("err") and a["body"] != b["body"]:
                probs = ["the written files differ beyond the command-line header line"]
            if probs:
                ck.violation({"kind": "S->I history", "history": x["h"], "run": k + 1, "inputs": [inputs[j - 1] for j in x["h"]],
                              "in_history": {kk: a.get(kk) for kk in ("err", "msg", "atoms", "ints", "nrexcl", "cites", "body")},
                              "fresh": {kk: b.get(kk) for kk in ("err", "msg", "atoms", "ints", "nrexcl", "cites", "body")}},
                             what="history %s, run %d (%s): result differs from the fresh-process run of the same input: %s" % (
                                 x["h"], k + 1, inputs[i - 1]["label"], "; ".join(probs)[:300]))
    ck.replayed += len(hists)
    ck.evaluations += nruns
    ck.actions["history_runs"] = ck.actions.get("history_runs", 0) + nruns
    ck.sample({"S->I history (inputs in one process)": [inputs[i - 1]["label"] for i in hists[len(hists) // 2]["h"]],
               "each run equals its fresh-process run": True})
    return inputs


# ------------------------------------------------------------------ I -> S: random abstract cases

ATN = ["c1", "c2", "c3"]


def _block(name, natoms, nrexcl, types):
    atoms = [{"an": ATN[i], "ty": types[i], "rn": name, "res": 1} for i in range(natoms)]
    inters = [{"kind": "bonds", "at": [i + 1, i + 2], "par": "0.1%d" % (i + 1), "ver": 1} for i in range(natoms - 1)]
    if natoms == 3:
        inters.append({"kind": "angles", "at": [1, 2, 3], "par": "0.14", "ver": 1})
    return {"name": name, "nrexcl": nrexcl, "atoms": atoms, "inters": inters, "cite": []}


def random_ff_case(rng, idx):
    """a random force field (2-3 single-residue blocks, optionally a 2-residue block used through from_itp, 2-5 links of the shapes of the
    catalogue, optionally terminal modifications) and a random connected residue graph on 5-8 residues.
    from_itp residues start at residue id 1 (F14, open, is C01's)."""
    n = rng.randint(5, 8)
    kind = rng.choice(["plain", "plain", "mixedexcl", "frag", "protein"])
    names = ["P", "Q", "R"][:rng.randint(2, 3)]
    blocks, links, mods, files = [], [], [], []
    use_itp = kind in ("frag",) or (kind == "mixedexcl" and rng.random() < 0.5)
    if kind == "protein":
        names = ["ALA", "GLY"]
        blocks = [{"name": "ALA", "nrexcl": 1, "atoms": [{"an": "BB", "ty": "P4", "rn": "ALA", "res": 1}, {"an": "SC1", "ty": "C3", "rn": "ALA", "res": 1}],
                   "inters": [{"kind": "bonds", "at": [1, 2], "par": "0.27", "ver": 1}], "cite": []},
                  {"name": "GLY", "nrexcl": 1, "atoms": [{"an": "BB", "ty": "P5", "rn": "GLY", "res": 1}], "inters": [], "cite": []}]
        links = [{"orders": [0, 1], "atoms": [{"oi": 1, "an": "BB", "rn": names}, {"oi": 2, "an": "BB", "rn": names}],
                  "inters": [{"kind": "bonds", "at": [1, 2], "par": "0.35", "ver": 1}], "rep": [], "del": []},
                 {"orders": [0, 1, 2], "atoms": [{"oi": 1, "an": "BB", "rn": names}, {"oi": 2, "an": "BB", "rn": names}, {"oi": 3, "an": "BB", "rn": names}],
                  "inters": [{"kind": "angles", "at": [1, 2, 3], "par": "0.36", "ver": 1}], "rep": [], "del": []}]
        mods = [{"name": "N-ter", "atoms": [{"an": "BB", "rep": True, "ty": "Qd"}], "inters": []},
                {"name": "C-ter", "atoms": [{"an": "BB", "rep": True, "ty": "Qa"}], "inters": []}]
    else:
        for nm in names:
            nat = rng.randint(2, 3)
            nrexcl = rng.choice([1, 2, 3]) if kind == "mixedexcl" else 1
            blocks.append(_block(nm, nat, nrexcl, [rng.choice(["T1", "T2", "T3"]) for _ in range(nat)]))
        last = {b["name"]: ATN[len(b["atoms"]) - 1] for b in blocks}
        for nm in names:          # bond from the last atom of nm to c1 of the next residue
            links.append({"orders": [0, 1], "atoms": [{"oi": 1, "an": last[nm], "rn": [nm]}, {"oi": 2, "an": "c1", "rn": list(names)}],
                          "inters": [{"kind": "bonds", "at": [1, 2], "par": "0.2%d" % (names.index(nm) + 1), "ver": 1}], "rep": [], "del": []})
        if rng.random() < 0.6:    # a later definition of one of the bonds: wins
            nm = rng.choice(names)
            links.append({"orders": [0, 1], "atoms": [{"oi": 1, "an": last[nm], "rn": [nm]}, {"oi": 2, "an": "c1", "rn": [rng.choice(names)]}],
                          "inters": [{"kind": "bonds", "at": [1, 2], "par": "0.29", "ver": 1}], "rep": [], "del": []})
        if rng.random() < 0.5:    # second version of a bond: kept next to the first (also next to polyply .itp files)
            nm = rng.choice(names)
            links.append({"orders": [0, 1], "atoms": [{"oi": 1, "an": last[nm], "rn": [nm]}, {"oi": 2, "an": "c1", "rn": list(names)}],
                          "inters": [{"kind": "bonds", "at": [1, 2], "par": "0.28", "ver": 2}], "rep": [], "del": []})
        if rng.random() < 0.6:    # angle over two residues
            links.append({"orders": [0, 1], "atoms": [{"oi": 1, "an": "c1", "rn": list(names)}, {"oi": 1, "an": "c2", "rn": list(names)}, {"oi": 2, "an": "c1", "rn": list(names)}],
                          "inters": [{"kind": "angles", "at": [1, 2, 3], "par": "0.24", "ver": 1}], "rep": [], "del": []})
        if rng.random() < 0.6:    # angle over three residues
            links.append({"orders": [0, 1, 2], "atoms": [{"oi": k + 1, "an": "c2", "rn": list(names)} for k in range(3)],
                          "inters": [{"kind": "angles", "at": [1, 2, 3], "par": "0.25", "ver": 1}], "rep": [], "del": []})
        if rng.random() < 0.35:   # `*` order: c1 of a residue to c2 of ANY bonded residue of the same name (asymmetric: both orientations apply)
            nm = rng.choice(names)
            links.append({"orders": [0, 101], "atoms": [{"oi": 1, "an": "c1", "rn": [nm]}, {"oi": 2, "an": "c2", "rn": [nm]}],
                          "inters": [{"kind": "bonds", "at": [1, 2], "par": "0.27", "ver": 1}], "rep": [], "del": []})
        if rng.random() < 0.4:    # a bond only where the first residue carries the residue-level attribute mark = "x" (some residues of that name do)
            nm = rng.choice(names)
            marked_name = nm
            links.append({"orders": [0, 1], "atoms": [{"oi": 1, "an": "c1", "rn": [nm], "mk": "x"}, {"oi": 2, "an": "c2", "rn": list(names)}],
                          "inters": [{"kind": "bonds", "at": [1, 2], "par": "0.26", "ver": 1}], "rep": [], "del": []})
        if rng.random() < 0.4:    # retype
            nm = rng.choice(names)
            links.append({"orders": [0], "atoms": [{"oi": 1, "an": "c1", "rn": [nm]}], "inters": [], "rep": [{"a": 1, "ty": "TX"}], "del": []})
            if rng.random() < 0.7:    # ... and a link (another interaction) that selects the retyped atom by its ORIGINAL type: the two commute
                t0 = [b for b in blocks if b["name"] == nm][0]["atoms"][0]["ty"]
                links.append({"orders": [0, 1], "atoms": [{"oi": 1, "an": "c2", "rn": [nm]}, {"oi": 1, "an": "c1", "rn": [nm], "ty": t0}, {"oi": 2, "an": "c2", "rn": list(names)}],
                              "inters": [{"kind": "angles", "at": [1, 2, 3], "par": "0.30", "ver": 1}], "rep": [], "del": []})
        if rng.random() < 0.35:   # two links with the SAME residue pattern (0, `>`) whose atom keys sort differently: an order-0 atom name starting with a digit
            nm = rng.choice(names)
            b = [x for x in blocks if x["name"] == nm][0]
            b["atoms"].append({"an": "1c", "ty": "T1", "rn": nm, "res": 1})
            b["inters"].append({"kind": "bonds", "at": [1, len(b["atoms"])], "par": "0.15", "ver": 1})
            links.append({"orders": [0, 201], "atoms": [{"oi": 1, "an": "c1", "rn": [nm]}, {"oi": 1, "an": "c2", "rn": [nm]}, {"oi": 2, "an": "c1", "rn": [nm]}],
                          "inters": [{"kind": "angles", "at": [1, 2, 3], "par": "0.37", "ver": 1}], "rep": [], "del": []})
            links.append({"orders": [0, 201], "atoms": [{"oi": 1, "an": "1c", "rn": [nm]}, {"oi": 1, "an": "c2", "rn": [nm]}, {"oi": 2, "an": "c1", "rn": [nm]}],
                          "inters": [{"kind": "angles", "at": [1, 2, 3], "par": "0.38", "ver": 1}], "rep": [], "del": []})
            if rng.random() < 0.5:    # ... and the same with `<`
                links.append({"orders": [0, 301], "atoms": [{"oi": 1, "an": "c2", "rn": [nm]}, {"oi": 2, "an": "1c", "rn": [nm]}],
                              "inters": [{"kind": "bonds", "at": [1, 2], "par": "0.39", "ver": 1}], "rep": [], "del": []})
                links.append({"orders": [0, 301], "atoms": [{"oi": 1, "an": "1c", "rn": [nm]}, {"oi": 1, "an": "c1", "rn": [nm]}, {"oi": 2, "an": "c2", "rn": [nm]}],
                              "inters": [{"kind": "angles", "at": [1, 2, 3], "par": "0.40", "ver": 1}], "rep": [], "del": []})
    # residue graph
    marked_name = locals().get("marked_name")
    order = list(range(1, n + 1))
    rng.shuffle(order)
    edges = set()
    for k in range(1, n):
        edges.add(frozenset((order[k], order[rng.randrange(k)])))
    rn = [rng.choice(names) for _ in range(n)]
    fi = [""] * n
    start = rng.choice([1, 1, 4])
    if kind == "frag":
        # a chain (plus random extra edges: cycles through fragments) with one or two copies of the 2-residue block M, adjacent (one
        # fragment) or separated by other residues (two fragments)
        edges = {frozenset((i, i + 1)) for i in range(1, n)}
        for a in range(1, n + 1):
            for b in range(a + 2, n + 1):
                if rng.random() < 0.1:
                    edges.add(frozenset((a, b)))
        ncopy = rng.randint(1, 2)
        starts = [rng.randint(1, n - 2 * ncopy + 1)]
        if ncopy == 2:
            starts.append(rng.randint(starts[0] + 2, n - 1))
        blocks.append({"name": "M", "nrexcl": 1, "atoms": [{"an": "x1", "ty": "T1", "rn": "X", "res": 1}, {"an": "x2", "ty": "T2", "rn": "X", "res": 1}, {"an": "y1", "ty": "T3", "rn": "Y", "res": 2}],
                       "inters": [{"kind": "bonds", "at": [1, 2], "par": "0.31", "ver": 1}, {"kind": "bonds", "at": [2, 3], "par": "0.32", "ver": 1}], "cite": []})
        for at in starts:
            for j, nm in enumerate(("X", "Y")):
                rn[at - 1 + j] = nm
                fi[at - 1 + j] = "M"
        allrn = list(names)
        links.append({"orders": [0, 1], "atoms": [{"oi": 1, "an": "y1", "rn": ["Y"]}, {"oi": 2, "an": "x1", "rn": ["X"]}],
                      "inters": [{"kind": "bonds", "at": [1, 2], "par": "0.34", "ver": 1}], "rep": [], "del": []})
        links.append({"orders": [0, 1], "atoms": [{"oi": 1, "an": "y1", "rn": ["Y"]}, {"oi": 2, "an": "c1", "rn": allrn}],
                      "inters": [{"kind": "bonds", "at": [1, 2], "par": "0.35", "ver": 1}], "rep": [], "del": []})
        for nm in names:
            b = [x for x in blocks if x["name"] == nm][0]
            links.append({"orders": [0, 1], "atoms": [{"oi": 1, "an": last[nm], "rn": [nm]}, {"oi": 2, "an": "x1", "rn": ["X"]}],
                          "inters": [{"kind": "bonds", "at": [1, 2], "par": "0.36", "ver": 1}], "rep": [], "del": []})
        start = 1
    else:
        for a in range(1, n + 1):
            for b in range(a + 1, n + 1):
                if rng.random() < 0.12:
                    edges.add(frozenset((a, b)))
    mark = ["x" if (marked_name and rn[k] == marked_name and rng.random() < 0.5) else "" for k in range(n)]
    # files: blocks and links spread over 1-3 files
    defs = [{"t": "b", "i": i + 1} for i in range(len(blocks))] + [{"t": "l", "i": i + 1} for i in range(len(links))] + [{"t": "m", "i": i + 1} for i in range(len(mods))]
    nfiles = rng.randint(1, 3)
    groups = [[] for _ in range(nfiles)]
    for d in defs:
        groups[rng.randrange(nfiles)].append(d)
    for g in groups:
        if g:
            files.append({"syn": "ff", "defs": g})
    # multi-residue blocks (and, with use_itp, some single-residue blocks) live in polyply .itp files of their own
    itpdefs = [d for d in defs if d["t"] == "b" and (blocks[d["i"] - 1]["name"] == "M" or (use_itp and rng.random() < 0.5))]
    if itpdefs:
        for f in files:
            f["defs"] = [d for d in f["defs"] if d not in itpdefs]
        files = [f for f in files if f["defs"]]
        for d in itpdefs:
            files.insert(rng.randrange(len(files) + 1), {"syn": "itp", "defs": [d]})
    # GROMOS-style parameter macros: one polyply .itp defines `gb_9`, another one names the bonded type gb_9 without defining it (handed through)
    if len(itpdefs) >= 2 and rng.random() < 0.8:
        who = rng.sample(itpdefs, 2)
        blocks[who[0]["i"] - 1]["macros"] = [{"name": "gb_9", "val": "0.1999"}]
        blocks[who[1]["i"] - 1]["inters"][0]["par"] = "gb_9"
    F = {"blocks": blocks, "links": links, "mods": mods, "bib": [], "files": files}
    for l in links:
        for a in l["atoms"]:
            a.setdefault("mk", "")
            a.setdefault("ty", "")
    case = {"id": idx, "ff": idx, "n": n, "start": start, "rn": rn, "fi": fi, "E": sorted(sorted(e) for e in edges), "mods": [], "mark": mark}
    return F, case


def random_variant(rng, case, F, keep):
    n = case["n"]
    ks = rng.choice(["zero", "one", "gaps", "str"])
    vals = {"zero": list(range(n)), "one": list(range(1, n + 1)), "gaps": sorted(rng.sample(range(2, 60), n)), "str": list(range(1, n + 1))}[ks]
    rng.shuffle(vals)
    keys = [{"s": ks == "str", "v": v} for v in vals]
    route = rng.choice(["api", "json"])
    nodeorder = list(range(1, n + 1))
    rng.shuffle(nodeorder)
    eseq = [list(e) for e in case["E"]]
    rng.shuffle(eseq)
    eseq = [e[::-1] if rng.random() < 0.5 else e for e in eseq]
    base = [d for f in F["files"] for d in f["defs"]]
    for _ in range(200):
        fo = list(range(len(F["files"])))
        rng.shuffle(fo)
        files = []
        for k in fo:
            ds = list(F["files"][k]["defs"])
            rng.shuffle(ds)
            files.append({"syn": F["files"][k]["syn"], "src": k + 1, "defs": ds})
        flat = [d for f in files for d in f["defs"]]
        if all(flat.index(base[i - 1]) < flat.index(base[j - 1]) for i, j in keep):
            break
    else:
        files = [{"syn": f["syn"], "src": k + 1, "defs": f["defs"]} for k, f in enumerate(F["files"])]
    return {"fam": "random", "keys": keys, "nodeorder": nodeorder, "eseq": eseq, "files": files, "route": route}


def _random_rec(arg):
    F, case, variants, wdname = arg
    c.quiet()
    wd = c.workdir(PROP, "rand_%s" % wdname)
    out = []
    for k, var in enumerate(variants):
        v = dict(var)
        try:
            obs = iu.run_direct(case, F, v, wd, tag="r%d_%d" % (case["id"], k))
        except Exception as exc:
            return {"machinery": "%s: %s" % (type(exc).__name__, exc)}
        proj = {"err": obs["err"], "atoms": obs.get("atoms", []), "ints": obs.get("ints", []), "nrexcl": obs.get("nrexcl", 0), "cites": obs.get("cites", [])}
        out.append({"var": var, "proj": proj, "msg": obs.get("msg", "")})
    return {"case": case, "vars": out}


# ------------------------------------------------------------------ I -> S: the repository's own force fields

def library_inputs(tier, rng):
    import polyply
    td = Path(polyply.__file__).parent / "tests" / "test_data" / "gen_params" / "input"
    specs = [{"id": "martini3:PEO", "lib": "martini3", "files": [], "seq": ["PEO"] * 5},
             {"id": "martini3:PS-PEO", "lib": "martini3", "files": [], "seq": ["PS", "PS", "PS", "PEO", "PEO"]},
             {"id": "martini3:protein", "lib": "martini3", "files": [], "seq": ["ALA", "GLY", "LYS", "ALA"]},
             {"id": "2016H66:PMMA", "lib": "2016H66", "files": [], "seq": ["PMMA"] * 4},
             {"id": "gromos53A6:P3HT", "lib": "gromos53A6", "files": [], "seq": ["P3HT"] * 4},
             {"id": "testdata:PPI", "lib": None, "files": [str(td / "PPI.ff")], "json": str(td / "PPI.json")},
             {"id": "testdata:edge_attr", "lib": None, "files": [str(td / "test_edge_attr.ff")], "json": str(td / "test_edge_attr.json")},
             {"id": "testdata:PS", "lib": None, "files": [str(td / "PS.martini.2.itp")], "json": str(td / "PS.json")},
             {"id": "testdata:PEO", "lib": None, "files": [str(td / "PEO.martini.3.itp")], "seq": ["PEO"] * 6}]
    if tier == "thorough":
        specs += [{"id": "martini3:PMMA-PEO", "lib": "martini3", "files": [], "seq": ["PMMA", "PMMA", "PEO", "PEO", "PEO"]},
                  {"id": "martini2:PS", "lib": "martini2", "files": [], "seq": ["PS"] * 5},
                  {"id": "oplsaa:PEO", "lib": "oplsaaLigParGen", "files": [], "seq": ["PEO"] * 4},
                  {"id": "testdata:removal", "lib": None, "files": [str(td / "removal.ff")], "seq": ["PEO"] * 4}]
    return specs


def _lib_graph(spec):
    """(node attribute dicts in residue order, edges with attributes) of a repository input"""
    if spec.get("json"):
        data = json.loads(Path(spec["json"]).read_text())
        nodes = sorted(data["nodes"], key=lambda d: d.get("resid", d["id"] + 1))
        idx = {d["id"]: k for k, d in enumerate(nodes)}
        attrs = []
        for d in nodes:
            a = {k: v for k, v in d.items() if k != "id"}
            a.setdefault("resid", d["id"] + 1)
            attrs.append(a)
        edges = []
        for e in data.get("links", data.get("edges", [])):
            edges.append((idx[e["source"]], idx[e["target"]], {k: v for k, v in e.items() if k not in ("source", "target")}))
        return attrs, edges
    attrs = [{"resid": k + 1, "resname": r} for k, r in enumerate(spec["seq"])]
    return attrs, [(k, k + 1, {}) for k in range(len(attrs) - 1)]


def _lib_rec(arg):
    spec, seeds = arg
    c.quiet()
    import copy
    import networkx as nx
    from polyply import MetaMolecule, MapToMolecule, ApplyLinks
    from polyply.src.apply_modifications import ApplyModifications
    from polyply.src.load_library import load_ff_library
    try:
        ff0 = load_ff_library("t", [spec["lib"]] if spec["lib"] else None, [Path(f) for f in spec["files"]])
        attrs, edges = _lib_graph(spec)
    except Exception as exc:
        return {"machinery": "cannot prepare %s: %s: %s" % (spec["id"], type(exc).__name__, exc)}
    n = len(attrs)

    def run(keys, nodeorder, eseq):
        ff = copy.deepcopy(ff0)
        g = nx.Graph()
        for p in nodeorder:
            g.add_node(keys[p], **attrs[p])
        for a, b, d in eseq:
            g.add_edge(keys[a], keys[b], **d)
        try:
            mm = MetaMolecule(g, force_field=ff, mol_name="t")
            MapToMolecule(ff).run_molecule(mm)
            ApplyLinks().run_molecule(mm)
            ApplyModifications(modifications=[], meta_molecule=mm).run_molecule(mm)
            return iu.project_molecule(mm.molecule, ff)
        except Exception as exc:
            return {"err": iu.err_class(exc), "msg": "%s: %s" % (type(exc).__name__, str(exc)[:200])}
    base = run(list(range(n)), list(range(n)), edges)
    out = []
    for sd in seeds:
        rng = random.Random(sd)
        ks = rng.choice(["zero", "one", "gaps", "str"])
        vals = {"zero": list(range(n)), "one": list(range(1, n + 1)), "gaps": sorted(rng.sample(range(2, 200), n)), "str": ["k%03d" % v for v in range(n)]}[ks]
        rng.shuffle(vals)
        nodeorder = list(range(n))
        rng.shuffle(nodeorder)
        eseq = list(edges)
        rng.shuffle(eseq)
        eseq = [(b, a, d) if rng.random() < 0.5 else (a, b, d) for a, b, d in eseq]
        obs = run(vals, nodeorder, eseq)
        out.append({"seed": sd, "keys": ks, "proj": obs, "labelling": {"keys": vals, "nodeorder": nodeorder, "eseq": [[a, b] for a, b, _ in eseq]}})
    return {"id": spec["id"], "base": base, "vars": out, "natoms": len(base.get("atoms", [])), "nints": len(base.get("ints", []))}


def digest(proj):
    if proj.get("err"):
        return "ERR:" + proj["err"]
    return hashlib.sha1(json.dumps([proj["atoms"], proj["ints"], proj["nrexcl"], proj["cites"]], sort_keys=True).encode()).hexdigest()[:16]


# ------------------------------------------------------------------ I -> S: random longer histories

def history_pool(wd, hinputs, tier):
    """inputs for the random histories: catalogue inputs (rendered), library force fields with -seq, the repository's gen_params test data"""
    import polyply
    td = Path(polyply.__file__).parent / "tests" / "test_data" / "gen_params" / "input"
    pool = list(hinputs)

    def seqf(name):
        # the installed networkx reads the edge list under "edges", the repository's files use "links": hand over both
        data = json.loads((td / name).read_text())
        data["edges"] = data.get("links", data.get("edges", []))
        data["links"] = data["edges"]
        p = Path(wd) / name
        p.write_text(json.dumps(data))
        return str(p)
    pool += [{"inpath": [], "lib": ["martini3"], "seq": ["PEO:4"], "name": "t", "label": "-lib martini3 -seq PEO:4"},
             {"inpath": [], "lib": ["martini3"], "seq": ["PS:2", "PEO:2"], "name": "t", "label": "-lib martini3 -seq PS:2 PEO:2"},
             {"inpath": [], "lib": ["martini3"], "seq": ["ALA:1", "GLY:2", "ALA:1"], "name": "t", "label": "-lib martini3 -seq ALA:1 GLY:2 ALA:1 (default termini)"},
             {"inpath": [str(td / "PPI.ff")], "seq_file": seqf("PPI.json"), "name": "t", "label": "-f PPI.ff -seqf PPI.json"},
             {"inpath": [str(td / "PEO.martini.3.itp")], "seq": ["PEO:5"], "name": "t", "label": "-f PEO.martini.3.itp -seq PEO:5"},
             {"inpath": [str(td / "test_edge_attr.ff")], "seq_file": seqf("test_edge_attr.json"), "name": "t", "label": "-f test_edge_attr.ff -seqf test_edge_attr.json"},
             {"inpath": [str(td / "removal.ff")], "seq": ["PEO:3"], "name": "t", "label": "-f removal.ff -seq PEO:3"},
             {"inpath": [], "lib": ["martini3"], "seq": ["P3HT:3"], "name": "t", "label": "-lib martini3 -seq P3HT:3"},
             {"inpath": [], "lib": ["martini2"], "seq": ["P3HT:3"], "name": "t", "label": "-lib martini2 -seq P3HT:3"}]
    if tier == "thorough":
        pool += [{"inpath": [], "lib": ["2016H66"], "seq": ["PMMA:3"], "name": "t", "label": "-lib 2016H66 -seq PMMA:3"},
                 {"inpath": [], "lib": ["gromos53A6"], "seq": ["P3HT:3"], "name": "t", "label": "-lib gromos53A6 -seq P3HT:3"},
                 {"inpath": [str(td / "PS.martini.2.itp")], "seq_file": seqf("PS.json"), "name": "t", "label": "-f PS.martini.2.itp -seqf PS.json"}]
    return pool


# ------------------------------------------------------------------ TLC validation of the recorded batch

def validate(ck, doc, name, expect_reject=False):
    wd = c.workdir(PROP, name)
    f = wd / "trace.json"
    f.write_text(json.dumps(doc))
    res = c.tlc("IndependenceTrace", "Ind_trace.cfg", workers=1, env={"TRACE_FILE": str(f)}, check=False, timeout=3000)
    acc = res.tagged("ACCEPTED")
    rej = res.tagged("REJECTED")
    bad = res.tagged("BADREC")
    if not acc and not rej and not bad and not res.inv_violated:
        raise c.MachineryError("IndependenceTrace failed: %s" % res.out[-2500:])
    rejected = {}
    for r in rej:
        rejected.update({int(t): int(m) for t, m in r})
    badrecs = [b for lst in bad for b in lst]
    if expect_reject:
        return rejected, badrecs, res
    ck.add_tlc(res)
    if res.inv_violated:
        ck.violation({"kind": "I->S history invariant", "invariant": res.inv_violated, "counterexample": c.counterexample(res)[:3000]},
                     what="a recorded history drives the history model into a state violating %s" % res.inv_violated)
    return rejected, badrecs, res


def run(tier, prop=PROP):
    ck = c.Check(prop, tier)
    sd = c.seed()
    ck.rule = ("PResult(case) is a function of the residue graph over residue-id positions and the SET of definitions; S->I: every exported "
               "labelling / ordering of every base case (<=4 residues; 6 force fields) and every history of <=3 calls must reproduce it; "
               "distinct = (case, variant) and histories; I->S: random cases of 5-8 residues with random presentations, relabelled graphs of "
               "repository force fields, random longer histories, validated by IndependenceTrace")
    ck.assumptions = ["residue ids are fixed and contiguous; node keys of one type (all integers or all strings: the JSON reader sorts them)",
                      "definitions of the same thing (same block / modification name; links with an interaction on the same atoms and version, or "
                      "retyping the same atom) keep their relative order: 'defined last wins' is order-dependent by specification (MustKeep)",
                      "links select atoms by atom name, residue name, a residue-level attribute or the ORIGINAL atom type of the block (link atoms are matched against the "
                      "residue fragments, which keep the block's attributes: a replacing link and a link selecting on the replaced attribute commute); "
                      "no non-edge / pattern conditions, which read the molecule as earlier links left it (C02 covers those for one ordering)",
                      "an atom removed by a link does not sit at a node key equal to a version number (open finding of C02, label-independent)",
                      "variants compare atoms in order, the interaction MULTISET, nrexcl and the citation set; byte-identical files (minus the command-line "
                      "header) are required for repeated runs / histories, where nothing but the process state differs",
                      "from_itp residues start at residue id 1 (F14 is open and belongs to C01)"]
    ck.stage("TLC: confluence model, sensitivity, history model, exports")
    jobs = [("main", "IndependenceMC", "Ind_quick.cfg" if tier == "quick" else "Ind_full.cfg", 4 if tier == "quick" else 8, {}),
            ("export", "IndependenceExport", "Ind_export.cfg", 1, {}),
            ("hist", "IndependenceHistMC", "Ind_hist_3.cfg" if tier == "quick" else "Ind_hist_4.cfg", 1, {}),
            ("histlib", "IndependenceHistMC", "Ind_hist_lib.cfg", 1, {}),
            ("histpath", "IndependenceHistMC", "Ind_hist_path.cfg", 1, {}),
            ("histdef", "IndependenceHistMC", "Ind_hist_def.cfg", 1, {})]
    jobs += [("dev:" + cfg, "IndependenceMC", cfg, 1, {"check": False}) for cfg, _ in DEVS]
    jobs += [("hdev:" + cfg, "IndependenceHistMC", cfg, 1, {"check": False}) for cfg, _ in HDEVS]
    from ..links_util import run_jobs
    res = run_jobs(jobs)
    ck.model_must_hold(res["main"], "Confluent / BaseAsDeclared / DomainInv / NoSpuriousFailure / FiredOnlyKnown")
    ck.model_must_hold(res["hist"], "HistoryIndependent / RepeatStable")
    ck.model_must_hold(res["histlib"], "HistoryIndependent / RepeatStable (library inputs with the default inpath)")
    ck.model_must_hold(res["histpath"], "HistoryIndependent / RepeatStable (an input file rewritten between calls under one path)")
    ck.model_must_hold(res["histdef"], "HistoryIndependent / RepeatStable (an .itp that defines a parameter macro, another that uses the token as a bonded type name)")
    for cfg, what in DEVS:
        ck.model_must_refute(res["dev:" + cfg], "Confluent", what)
    for cfg, what in HDEVS:
        ck.model_must_refute(res["hdev:" + cfg], "HistoryIndependent", what)
    ck.model_must_hold(res["export"], "export")
    keep = res["export"].tagged("KEEP")
    ck.extra["must_keep_pairs_per_catalogue_ff"] = keep[0] if keep else None

    ck.stage("S->I: every labelling / ordering of every base case through the real pipeline")
    ffs, byid = replay_variants(ck, res["export"], tier)

    ck.stage("S->I: all histories of <= 3 calls, one process each")
    hinputs = replay_histories(ck, res["hist"], ffs, tier)
    hinputs += replay_histories(ck, res["histlib"], ffs, tier, "histlib", 2 if tier == "quick" else 3)[:2]
    hinputs += replay_histories(ck, res["histpath"], ffs, tier, "histpath", 2 if tier == "quick" else 3)[:2]
    hinputs += replay_histories(ck, res["histdef"], ffs, tier, "histdef", 2 if tier == "quick" else 3)[:2]

    ck.stage("I->S: random cases, repository force fields, random histories")
    rng = random.Random(sd * 1000003 + 13)
    ncase = 40 if tier == "quick" else 400
    nvar = 5 if tier == "quick" else 8
    gen = [random_ff_case(random.Random(sd * 7919 + k), k + 1) for k in range(ncase)]
    # domain stage: TLC says which definitions must keep their relative order
    wd = c.workdir(prop, "dom")
    domdoc = {"ffs": [g[0] for g in gen], "recs": [], "opaque": [], "fresh": [], "traces": []}
    (wd / "dom.json").write_text(json.dumps(domdoc))
    dom = c.tlc("IndependenceTrace", "Ind_dom.cfg", workers=1, env={"TRACE_FILE": str(wd / "dom.json")}, check=False)
    keeps = dom.tagged("KEEP")
    if not keeps or len(keeps[0]) != ncase:
        raise c.MachineryError("domain stage failed: %s" % dom.out[-1500:])
    ck.add_tlc(dom)
    keeps = keeps[0]
    parts = []
    for k, (F, case) in enumerate(gen):
        vr = random.Random(sd * 104729 + k)
        basevar = {"fam": "base", "keys": [{"s": False, "v": p} for p in range(case["n"])], "nodeorder": list(range(1, case["n"] + 1)),
                   "eseq": case["E"], "files": [{"syn": f["syn"], "src": i + 1, "defs": f["defs"]} for i, f in enumerate(F["files"])], "route": "api"}
        parts.append((F, case, [basevar] + [random_variant(vr, case, F, [tuple(p) for p in keeps[k]]) for _ in range(nvar)], "c%d" % k))
    recs = []
    for r in c.pmap(_random_rec, parts, chunksize=2):
        if "machinery" in r:
            raise c.MachineryError("random case: " + r["machinery"])
        recs.append(r)
    nreordered = sum(1 for r in recs for v in r["vars"] if [d for f in v["var"]["files"] for d in f["defs"]] != [d for f in r["vars"][0]["var"]["files"] for d in f["defs"]])
    def _nfrag(case):
        runs, prev = 0, False
        for x in case["fi"]:
            runs += 1 if (x and not prev) else 0
            prev = bool(x)
        return runs
    ck.extra["random_cases_beyond_former_findings"] = {
        "from_itp_in_cyclic_graph": sum(1 for F, cs in gen if any(cs["fi"]) and len(cs["E"]) >= cs["n"]),
        "two_separate_fragments": sum(1 for F, cs in gen if _nfrag(cs) >= 2),
        "links_selecting_on_a_residue_attribute": sum(1 for F, cs in gen if any(cs["mark"])),
        "replace_link_and_link_selecting_the_replaced_attribute": sum(1 for F, cs in gen if any(a.get("ty") for l in F["links"] for a in l["atoms"])),
        "star_order_links": sum(1 for F, cs in gen if any(100 <= o < 200 for l in F["links"] for o in l["orders"])),
        "links_sharing_a_residue_pattern_numbered_differently": sum(1 for F, cs in gen if any(o >= 200 for l in F["links"] for o in l["orders"])),
        "itp_with_parameter_macro_next_to_itp_using_the_token": sum(1 for F, cs in gen if any(b.get("macros") for b in F["blocks"])),
        "link_versions_next_to_itp_files": sum(1 for F, cs in gen if any(f["syn"] == "itp" for f in F["files"]) and any(x["ver"] != 1 for l in F["links"] for x in l["inters"]))}
    ck.extra["random_cases"] = {"cases": len(recs), "variants": sum(len(r["vars"]) for r in recs), "variants_with_reordered_definitions": nreordered,
                                "with_mustkeep_pairs": sum(1 for k in keeps if k)}
    ck.sample({"I->S random case": recs[0]["case"], "files": gen[0][0]["files"], "variant": recs[0]["vars"][1]["var"], "observed atoms": len(recs[0]["vars"][1]["proj"]["atoms"])})
    libs = library_inputs(tier, rng)
    nlv = 4 if tier == "quick" else 10
    opaque, libraw = [], {}
    for r in c.pmap(_lib_rec, [(s, [sd * 31 + 100 * k + j for j in range(nlv)]) for k, s in enumerate(libs)]):
        if "machinery" in r:
            raise c.MachineryError(r["machinery"])
        if r["base"].get("err"):
            ck.violation({"kind": "I->S repository input", "input": r["id"], "error": r["base"]},
                         what="the pipeline raised on the repository input %s: %s" % (r["id"], r["base"].get("msg")))
            continue
        libraw[r["id"]] = r
        opaque.append({"id": r["id"], "base": digest(r["base"]), "vars": [digest(v["proj"]) for v in r["vars"]]})
    ck.extra["repository_inputs"] = {r["id"]: {"atoms": r["natoms"], "interactions": r["nints"], "relabelled_runs": len(r["vars"])} for r in libraw.values()}
    # random histories
    hw = c.workdir(prop, "rhist")
    pool = history_pool(hw, hinputs, tier)
    nh = 8 if tier == "quick" else 40
    hr = random.Random(sd * 15485863 + 5)
    rh = [[hr.randrange(1, len(pool) + 1) for _ in range(hr.randint(4, 7))] for _ in range(nh)]
    singles = [[i] for i in range(1, len(pool) + 1)]
    specs = history_specs(hw, pool, singles + rh, "r")
    hres = c.pmap(_run_history, specs)
    for r in hres:
        if "machinery" in r:
            raise c.MachineryError(r["machinery"])
    fresh = [result_digest(hres[i]["res"][0]) for i in range(len(pool))]
    for i, d in enumerate(fresh):
        if d.startswith("ERR:") and not pool[i].get("declared_failure"):      # every other input of the pool is inside the domain of gen_params
            ck.violation({"kind": "I->S history input", "input": pool[i], "error": hres[i]["res"][0]},
                         what="gen_params raised in a fresh process on the in-domain input '%s': %s" % (pool[i]["label"], hres[i]["res"][0].get("msg")))
    traces = [[{"inp": i, "out": result_digest(r)} for i, r in zip(h, hres[len(pool) + k]["res"])] for k, h in enumerate(rh)]
    ck.extra["random_histories"] = {"histories": len(rh), "runs": sum(len(h) for h in rh), "pool": [p["label"] for p in pool]}
    ck.sample({"I->S history": [pool[i - 1]["label"] for i in rh[0]], "recorded": traces[0]})
    doc = {"ffs": [g[0] for g in gen], "recs": [{"case": r["case"], "vars": [{"var": v["var"], "proj": v["proj"]} for v in r["vars"]]} for r in recs],
           "opaque": opaque, "fresh": fresh, "traces": traces}
    rejected, badrecs, tres = validate(ck, doc, "trace")
    ck.traces += len(traces) - len(rejected) + sum(len(r["vars"]) for r in recs) + sum(len(o["vars"]) for o in opaque) - len(badrecs)
    ck.evaluations += sum(len(r["vars"]) for r in recs) + sum(len(o["vars"]) + 1 for o in opaque) + sum(len(h) for h in rh) + len(pool)
    for r in recs:
        ck.nontrivial.add("r:%d" % r["case"]["id"])
    for tid, matched in sorted(rejected.items()):
        h = rh[tid - 1]
        i = h[matched] if matched < len(h) else None
        ck.violation({"kind": "I->S history", "history": [pool[j - 1] for j in h], "matched_runs": matched, "recorded": traces[tid - 1], "fresh": [fresh[j - 1] for j in h],
                      "in_history": hres[len(pool) + tid - 1]["res"][matched] if i else None, "fresh_run": hres[i - 1]["res"][0] if i else None},
                     what="recorded history rejected by the history model at run %d (%s): its result differs from the fresh-process run of the same input" % (
                         matched + 1, pool[i - 1]["label"] if i else "?"))
    recby = {r["case"]["id"]: r for r in recs}
    for b in badrecs:
        if b["src"] == "rec":
            r = recby[b["rec"]]
            v = r["vars"][b["var"] - 1] if b["var"] else None
            if b["what"].startswith("not a presentation") or b["what"].startswith("residue graph"):
                raise c.MachineryError("generator produced an input outside the domain: %s %s" % (b, v["var"] if v else ""))
            ck.violation({"kind": "I->S random case", "case": r["case"], "ff": gen[r["case"]["id"] - 1][0], "variant": v["var"] if v else None,
                          "observed": v["proj"] if v else None, "base_observed": r["vars"][0]["proj"], "msg": v.get("msg") if v else None},
                         what="random case %d, variant %d: %s (%s)" % (b["rec"], b["var"], b["what"],
                                                                      "; ".join(iu.diff(v["proj"], r["vars"][0]["proj"], "variant", "base labelling"))[:300] if v else ""))
        else:
            r = libraw[opaque[b["rec"] - 1]["id"]]
            v = r["vars"][b["var"] - 1]
            ck.violation({"kind": "I->S repository input", "input": r["id"], "labelling": v["labelling"], "observed": v["proj"] if v["proj"].get("err") else None,
                          "differences": iu.diff(v["proj"], r["base"], "relabelled", "base labelling")[:3]},
                         what="%s relabelled (seed %d, %s keys): %s" % (r["id"], v["seed"], v["keys"], "; ".join(iu.diff(v["proj"], r["base"], "relabelled", "base labelling"))[:300]))

    ck.stage("binding demonstration")
    # built from records / traces that were accepted above, so that exactly the corrupted ones must be rejected
    badkeys = {(b["src"], b["rec"]) for b in badrecs}
    good = [r for r in doc["recs"] if ("rec", r["case"]["id"]) not in badkeys and not r["vars"][1]["proj"]["err"] and r["vars"][1]["proj"]["ints"]]
    goodop = [o for k, o in enumerate(doc["opaque"]) if ("opaque", k + 1) not in badkeys]
    goodtr = [t for k, t in enumerate(doc["traces"]) if (k + 1) not in rejected and len(t) >= 2]
    if len(good) < 2 or not goodop or not goodtr:
        ck.require(False, "binding demonstration: not enough accepted records to corrupt (%d random cases, %d repository inputs, %d histories)" % (len(good), len(goodop), len(goodtr)))
        return ck.finish()
    good = good[:3]
    demo = json.loads(json.dumps({"ffs": [doc["ffs"][r["case"]["ff"] - 1] for r in good], "recs": good, "opaque": goodop[:2], "fresh": doc["fresh"], "traces": goodtr[:2]}))
    for k, r in enumerate(demo["recs"]):
        r["case"]["ff"] = k + 1
    demo["recs"][0]["vars"][1]["proj"]["ints"][0][2] = "9.99"    # one parameter of one recorded interaction
    demo["opaque"][0]["vars"][0] = "0" * 16                      # one digest
    demo["traces"][0][1]["out"] = "f" * 16                       # the result of the second run of one history
    demo["recs"][1]["vars"][1]["var"]["nodeorder"][0] = demo["recs"][1]["vars"][1]["var"]["nodeorder"][1]   # not a permutation any more
    rej2, bad2, _ = validate(ck, demo, "demo", expect_reject=True)
    got = {(b["src"], b["rec"], b["var"], b["what"][:12]) for b in bad2}
    want = {("rec", demo["recs"][0]["case"]["id"], 2, "projection d"), ("opaque", 1, 1, "projection d"), ("rec", demo["recs"][1]["case"]["id"], 2, "not a presen")}
    if not want <= got or rej2.get(1) != 1:
        raise c.MachineryError("binding demonstration failed: corrupted records %s / trace %s not rejected as expected (got %s, %s)" % (want, {1: 1}, got, rej2))
    if len(bad2) != 3 or len(rej2) != 1:
        raise c.MachineryError("binding demonstration: uncorrupted records were rejected too: %s %s" % (bad2, rej2))
    ck.extra["binding_demo"] = "corrupted interaction parameter, digest and node order rejected as records, corrupted history result rejected at run 2; all other records accepted"
    ck.exhaustive = True
    return ck.finish()


def replay(path):
    doc = json.loads(open(path).read())
    case = doc["case"]
    c.quiet()
    wd = c.workdir(PROP, "replay_one")
    if case["kind"] == "S->I variant":
        exp = iu.expected_proj(case["expected"])
        if case["how"] == "gen_params":
            v = dict(case["variant"])
            v["route"] = "json"
            obs, _ = iu.run_gen_params(case["case"], case["ff"], v, wd)
        else:
            obs = iu.run_direct(case["case"], case["ff"], case["variant"], wd)
        d = iu.diff(obs, exp)
        print("input files in %s" % wd)
        print("differences from the declared result:", d or "none")
        return 1 if d else 0
    if case["kind"] == "I->S random case":
        base = {"fam": "base", "keys": [{"s": False, "v": p} for p in range(case["case"]["n"])], "nodeorder": list(range(1, case["case"]["n"] + 1)),
                "eseq": case["case"]["E"], "files": [{"syn": f["syn"], "src": i + 1, "defs": f["defs"]} for i, f in enumerate(case["ff"]["files"])], "route": "api"}
        a = iu.run_direct(case["case"], case["ff"], base, wd, tag="b")
        b = iu.run_direct(case["case"], case["ff"], case["variant"], wd, tag="v")
        d = iu.diff(b, a, "variant", "base labelling")
        print("differences between the variant and the base labelling:", d or "none")
        return 1 if d else 0
    if case["kind"] in ("S->I history", "I->S history"):
        seq = case["inputs"] if "inputs" in case else case["history"]
        inputs, h = [], []
        for x in seq:
            x = {k: v for k, v in x.items() if k not in ("out", "argv", "write")}
            if x.get("shared"):
                x["inpath"] = []
            if x not in inputs:
                inputs.append(x)
            h.append(inputs.index(x) + 1)
        specs = history_specs(wd, inputs, [h] + [[k] for k in range(1, len(inputs) + 1)], "x")
        res = [_run_history(s) for s in specs]
        bad = 0
        for k, i in enumerate(h):
            a, b = res[0]["res"][k], res[i]["res"][0]
            if result_digest(a) != result_digest(b):
                bad += 1
                print("run %d (%s): differs from its fresh-process run" % (k + 1, inputs[i - 1].get("label")))
        print("replayed history: %d deviating runs" % bad)
        return 1 if bad else 0
    print("replay of %s is not implemented; see the stored case" % case["kind"])
    return 0
