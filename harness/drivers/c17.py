"""C17 - failed placements are rolled back completely; accepted ones never move.

spec/Walk.tla : I-layer actions of BuildSystem / RandomWalk, P-layer RolledBack, AttemptClean, GrowFromPositioned,
                AcceptedStable, OnlyCurrent, Final, NoDoublePlacement (SuppliedKept is shared with C04).
S->I : every complete failure schedule TLC enumerates (WalkExport) is scripted into the real BuildSystem / RandomWalk
       (placement outcomes forced by interposing on update_positions / the start-point test) and the recorded event
       sequence - event by event, with the positioned set and the changed engine rows - must equal the specification's.
I->S : (a) random failure schedules on larger random trees with random supplied subsets, (b) natural failures in dense
       melts through the real gen_coords; traces validated by WalkTrace (all Walk invariants on every prefix).
"""
import json
import os
import random
import signal

import numpy as np

from .. import common as c
from .. import walk_util as w

FIX = c.VERIF / "selftest" / "fixtures"


def _norm(evs):
    for e in evs:
        e["moved"] = sorted(e["moved"])
    return evs


def _replay_one(case):
    try:
        evs, err = w.run_instance(case["inst"], w.script_of(case["evs"]))
    except Exception as exc:  # harness-level failure
        return ("machinery", "%s: %s" % (type(exc).__name__, exc), None)
    if err and err.startswith("MACHINERY"):
        return ("machinery", err, None)
    if err and err.startswith("NOVERDICT") and "natural placement failure" in err:
        return ("noverdict", err, None)
    exp = _norm(case["evs"])
    got = evs or []
    for i in range(max(len(got), len(exp))):
        a = got[i] if i < len(got) else None
        b = exp[i] if i < len(exp) else None
        # numeric observations of the monitor (anchored: grown from the neighbour's CURRENT position) are not part of the exported
        # abstract event; they must all hold
        if a is not None and not all(a.get("obs", {}).values()):
            return ("diff", "event %d: %s - monitor %s, raw %s" % (i + 1, json.dumps({k: v for k, v in a.items() if k in ("ev", "mol", "prev", "cur")}),
                                                                   json.dumps(a.get("obs")), json.dumps(a.get("raw"))), {"observed": got[:i + 1], "at": i})
        if a is not None:
            a = {k: v for k, v in a.items() if k not in ("obs", "raw")}
        if a != b:
            return ("diff", "event %d: observed %s, specification %s%s" % (i + 1, json.dumps(a), json.dumps(b), ("; run ended with " + err) if err else ""),
                    {"observed": got[:i + 1], "at": i})
    if err:
        return ("diff", "run ended with %s" % err, {"observed": got})
    return ("ok", None, None)


def replay_cases(ck, cases, label):
    res = c.pmap(_replay_one, cases, chunksize=8)
    nov = 0
    for case, (kind, msg, detail) in zip(cases, res):
        if kind == "machinery":
            raise c.MachineryError("%s: %s (instance %s)" % (label, msg, case["inst"]))
        if kind == "noverdict":
            nov += 1
            continue
        ck.replayed += 1
        ck.count(json.dumps([case["inst"], w.script_of(case["evs"])], sort_keys=True))
        for e in case["evs"]:
            ck.actions[e["ev"]] = ck.actions.get(e["ev"], 0) + 1
        if kind == "diff":
            ck.violation({"kind": "S->I", "inst": case["inst"], "evs": case["evs"], "detail": detail},
                         what="%s: real BuildSystem/RandomWalk diverges from Walk under the scripted schedule %s: %s" % (
                             label, w.script_of(case["evs"]), msg))
    if nov > 0.02 * len(cases) + 2:
        raise c.MachineryError("%s: %d of %d scripted runs gave no verdict" % (label, nov, len(cases)))
    ck.extra.setdefault("no_verdict_runs", 0)
    ck.extra["no_verdict_runs"] += nov


# ------------------------------------------------------------------ I -> S drivers

def random_instance(rng, nmol=2):
    inst = {"nmol": nmol, "nodes": [], "path": [], "root": [], "attr": [], "ignored": [],
            "nrewind": rng.choice([1, 2, 3, 4, 5]), "maxiter": rng.choice([1, 2, 3]), "maxattempts": rng.choice([0, 1, 2])}
    for m in range(nmol):
        n = rng.randint(4, 8)
        edges = [[rng.randint(max(1, k - 3), k - 1), k] for k in range(2, n + 1)]   # random tree, parents before children
        inst["nodes"].append(list(range(1, n + 1)))
        inst["path"].append(edges)
        inst["root"].append(1)
        k = rng.choice([0, 0, 1, 2, 3])
        inst["attr"].append(sorted(rng.sample(range(1, n + 1), k)))
        # cyclic residue graphs: extra bonds that are not edges of the growth tree (ring closures, bridges)
        extra = []
        if n >= 4 and rng.random() < 0.5:
            have = {frozenset(e) for e in edges}
            for _ in range(rng.choice([1, 1, 2])):
                a, b = rng.sample(range(1, n + 1), 2)
                if frozenset((a, b)) not in have:
                    have.add(frozenset((a, b)))
                    extra.append([a, b])
        inst.setdefault("extra", {})[m + 1] = extra
    return inst


def _random_trace(arg):
    sd, k = arg
    rng = random.Random(sd * 7919 + k)
    inst = random_instance(rng, nmol=rng.choice([1, 2, 3]))
    budget = {"n": rng.randint(0, 9)}

    def chooser(kinds):
        if budget["n"] > 0 and rng.random() < 0.3:
            budget["n"] -= 1
            return kinds[1]
        return kinds[0]
    try:
        evs, err = w.run_instance(inst, None, seed=k, chooser=chooser, check_path=False, extra_edges=inst.get("extra"))
    except Exception as exc:
        return {"error": "MACHINERY %s: %s" % (type(exc).__name__, exc)}
    hdr = w.run_instance.last.header
    if err and "natural placement failure" in err:
        return {"noverdict": err}
    if hdr is None:   # run_system did not return: the exception of the code under test is the finding
        return {"inst": inst, "evs": evs or [], "error_in_code": err}
    return {"inst": hdr, "evs": evs, "error_in_code": err}


class _Timeout(BaseException):
    pass


def _alarm(signum, frame):
    raise _Timeout()


def _natural_trace(arg):
    """one real gen_coords run on a dense system; natural failures, rewinds and abandoned attempts"""
    top, box, max_force, nrewind, sd, coord, build_res = arg
    from pathlib import Path
    from polyply import gen_coords
    import tempfile
    np.random.seed(sd)
    random.seed(sd)
    signal.signal(signal.SIGALRM, _alarm)
    signal.setitimer(signal.ITIMER_REAL, 120, 5)
    try:
        with tempfile.TemporaryDirectory(prefix="verif_c17_", dir="/var/tmp") as wd:
            with w.recording() as rec:
                try:
                    gen_coords(toppath=Path(top), outpath=Path(wd) / "o.gro", name="t", box=np.array([box] * 3), max_force=max_force,
                               nrewind=nrewind, coordpath=Path(coord) if coord else None, build_res=build_res or [])
                except _Timeout:
                    return {"noverdict": "timeout"}
                except Exception as exc:
                    return {"inst": rec.header, "evs": rec.events, "error_in_code": "%s: %s" % (type(exc).__name__, exc)}
            return {"inst": rec.header, "evs": rec.events, "error_in_code": None}
    except _Timeout:
        return {"noverdict": "timeout"}
    finally:
        signal.setitimer(signal.ITIMER_REAL, 0)


def _threshold_trace(arg):
    """a build around the engine's 5000-point tree threshold: 4978 supplied single-residue molecules + 20 built ones bring the newest search
    tree to 4998 points, then six 4-residue chains are built under forced failures (rewinds and abandoned attempts whose residues may sit on
    both sides of a tree boundary).  Every roll-back must leave all four views of the engine consistent (monitor `views`)."""
    sd, nw = arg
    from pathlib import Path
    from polyply import gen_coords
    import tempfile
    from . import c05
    np.random.seed(sd)
    random.seed(sd)
    rng = random.Random(sd)
    budget = {"n": 14}

    def chooser(kinds):
        if kinds[0] == "ok" and budget["n"] > 0 and rng.random() < 0.35:
            budget["n"] -= 1
            return kinds[1]
        return None if kinds[0] == "root" else kinds[0]
    signal.signal(signal.SIGALRM, _alarm)
    signal.setitimer(signal.ITIMER_REAL, 900, 5)
    try:
        with tempfile.TemporaryDirectory(prefix="verif_c17t_", dir="/var/tmp") as wd:
            wd = Path(wd)
            c05.slab_files(wd, sd, nw=nw)
            # chains of 8 residues instead of 4: the newest tree passes 5000 points in the middle of the first chain and failures after that
            # point roll residues back on both sides of the boundary
            top = (wd / "slab.top").read_text()
            head, tail = top.split("[ moleculetype ]\nC4 1", 1) if "[ moleculetype ]\nC4 1" in top else (None, None)
            if head is None:
                import re as _re
                m = _re.search(r"\[ moleculetype \]\s*\n\s*C4\s+1", top)
                head, tail = top[:m.start()], top[m.end():]
            sysm = tail[tail.index("[ system ]"):]
            c8 = "[ moleculetype ]\nC4 1\n[ atoms ]\n" + "".join("%d P %d CA CA %d 0.0 72\n" % (i, i, i) for i in range(1, 9)) \
                 + "[ bonds ]\n" + "".join("%d %d 1 0.47 100\n" % (i, i + 1) for i in range(1, 8))
            (wd / "slab.top").write_text(head + c8 + sysm)
            with w.recording(chooser=chooser) as rec:
                try:
                    gen_coords(toppath=wd / "slab.top", outpath=wd / "o.gro", name="t", coordpath=wd / "slab.gro", grid=str(wd / "grid.dat"),
                               max_force=1e12, nrewind=3, step_fudge=1.0)
                except _Timeout:
                    return {"noverdict": "timeout"}
                except Exception as exc:
                    return {"inst": rec.header, "evs": rec.events, "error_in_code": "%s: %s" % (type(exc).__name__, exc)}
            inst, evs = w.compact_trace(rec.header, rec.events)
            return {"inst": inst, "evs": evs, "error_in_code": None}
    except _Timeout:
        return {"noverdict": "timeout"}
    finally:
        signal.setitimer(signal.ITIMER_REAL, 0)


def validate(ck, traces, name, expect_reject=False, batch=300):
    if not expect_reject and len(traces) > batch:
        # big sets (thorough tier) are validated in batches, one TLC run each: time and memory of a run stay bounded
        rejected, bad = {}, None
        for b0 in range(0, len(traces), batch):
            r, bi = validate(ck, traces[b0:b0 + batch], "%s_%d" % (name, b0), batch=batch)
            rejected.update({t + b0: m for t, m in r.items()})
            bad = bad or bi
        return rejected, bad
    wd = c.workdir("C17", name)
    f = wd / "traces.json"
    f.write_text(json.dumps(traces))
    res = c.tlc("WalkTrace", "Walk_trace.cfg", workers=1, env={"TRACE_FILE": str(f)}, check=False, timeout=3000)
    rej = res.tagged("REJECTED")
    bad_inv = res.inv_violated
    if res.rc != 0 and not rej and not bad_inv:
        raise c.MachineryError("WalkTrace failed: %s" % res.out[-2500:])
    rejected = {}
    for r in rej:
        rejected.update({int(t): int(m) for t, m in r})
    if expect_reject:
        return rejected, bad_inv
    ck.add_tlc(res)
    if bad_inv:
        ck.violation({"kind": "I->S invariant", "invariant": bad_inv, "counterexample": c.counterexample(res)[:4000]},
                     what="a recorded trace drives Walk into a state violating %s" % bad_inv)
        return rejected, bad_inv
    ck.traces += len(traces) - len(rejected)
    for tid, matched in sorted(rejected.items()):
        tr = traces[tid - 1]
        nxt = tr["evs"][matched] if matched < len(tr["evs"]) else None
        ck.violation({"kind": "I->S trace", "inst": tr["inst"], "evs": tr["evs"][:matched + 1], "matched_events": matched},
                     what="recorded build trace rejected by Walk after %d matched events; next event %s" % (matched, json.dumps(nxt)[:400]))
    return rejected, bad_inv


def collect(ck, results, label):
    traces, nov = [], 0
    for r in results:
        if "error" in r:
            raise c.MachineryError("%s: %s" % (label, r["error"]))
        if "noverdict" in r:
            nov += 1
            continue
        if r.get("error_in_code"):
            ck.violation({"kind": "I->S exception", "inst": r["inst"], "evs": r["evs"][-30:], "error": r["error_in_code"]},
                         what="%s: the code raised during building: %s" % (label, r["error_in_code"]))
            continue
        traces.append({"inst": r["inst"], "evs": r["evs"]})
        for e in r["evs"]:
            ck.actions["trace:" + e["ev"]] = ck.actions.get("trace:" + e["ev"], 0) + 1
    ck.extra["no_verdict_runs"] = ck.extra.get("no_verdict_runs", 0) + nov
    ck.evaluations += len(traces)
    return traces


def run(tier, prop="C17"):
    ck = c.Check(prop, tier)
    sd = c.seed()
    ck.rule = ("S->I: all complete failure schedules of Walk with at most 3 failing placements on the instance set MCSmall (5 growth shapes x every "
               "proper subset of supplied residues, 2-molecule systems) and the 3-molecule ignore/skip instances, plus simulated schedules with more "
               "failures; distinct = (instance, schedule). I->S: random schedules on random trees (4-8 residues, 1-3 molecules, random supplied subsets, "
               "nrewind 1-5) and natural failures of dense melts through gen_coords")
    ck.assumptions = ["placement outcomes are forced by interposing on RandomWalk.update_positions and the start-point overlap test; successful placements use the real code in a dilute box",
                      "positions are abstract in Walk.tla (positioned or not); geometry is C05's subject"]
    ck.stage("TLC: model, sensitivity, liveness, exports")
    nsim = 150 if tier == "quick" else 2500
    wd = c.workdir(prop, "sim")
    simcfg = wd / "Walk_sim.cfg"
    simcfg.write_text((c.SPEC / "Walk_export.cfg").read_text().replace("Instances <- MCSmall", "Instances <- MCInstances").replace("MaxFail = 3", "MaxFail = 9"))
    jobs = [("MC_Walk", "Walk_small.cfg" if tier == "quick" else "Walk_deep.cfg", {"workers": 4}),
            ("MC_Walk", "Walk_live.cfg", {"workers": 2}),
            ("MC_Walk", "Walk_unbounded.cfg" if tier == "quick" else "Walk_unbounded_deep.cfg", {"workers": 2}),
            ("MC_Walk", "Walk_dev_retryall.cfg", {"check": False, "workers": 1}),
            ("MC_Walk", "Walk_dev_nocleanup.cfg", {"check": False, "workers": 1}),
            ("MC_Walk", "Walk_dev_rewindleaves.cfg", {"check": False, "workers": 1}),
            ("MC_Walk", "Walk_dev_rewindlate.cfg", {"check": False, "workers": 1}),
            ("WalkExport", "Walk_export.cfg", {"workers": 3}),
            ("WalkExport", "Walk_export3.cfg", {"workers": 2}),
            ("WalkExport", simcfg, {"workers": 1, "simulate": "num=%d" % nsim, "depth": 200, "tseed": sd + 11})]
    small, live, unb, d1, d2, d3, d4, ex, ex3, sim = c.tlc_many(jobs)
    ck.model_must_hold(small, "RolledBack/AttemptClean/GrowFromPositioned/SuppliedKept/Final/NoDoublePlacement/AcceptedStable/OnlyCurrent")
    ck.model_must_hold(unb, "the same invariants and action properties on the COMPLETE reachable state graph without a bound on the number of failing placements "
                            "(MaxFail <- Unlimited: `fails` is frozen, every other counter is bounded by the instance, so the graph is finite and every failure schedule of any length is a path in it)")
    ck.extra["unbounded_failures"] = {"cfg": "Walk_unbounded.cfg" if tier == "quick" else "Walk_unbounded_deep.cfg", "distinct_states": unb.distinct, "depth": getattr(unb, "depth", None)}
    ck.model_must_hold(live, "Terminates (fair behaviours with a bounded number of failures reach Finish)")
    ck.model_must_refute(d1, "SuppliedKept", "retry removes all positions of the molecule (F5)")
    ck.model_must_refute(d2, "AttemptClean", "abandoned attempt not rolled back")
    ck.model_must_refute(d3, "RolledBack", "rewind leaves one residue behind")
    ck.model_must_refute(d4, "Final", "rewind resumes one step late")
    for a in ("SkipMolecule", "BeginAttempt", "PlaceRootOk", "PlaceRootFail", "Skip", "PlaceOk", "PlaceFail", "Rewind", "EndFail", "EndWalk",
              "AttemptFailed", "GiveUp", "HandledFail", "Accept", "Finish"):
        pass
    ck.stage("S->I: replay of exported schedules")
    ck.model_must_hold(ex, "export")
    ck.model_must_hold(ex3, "export3")
    cases = ex.cases() + ex3.cases()
    if len(cases) < 100:
        raise c.MachineryError("too few exported schedules: %d" % len(cases))
    ck.sample({"S->I schedule": w.script_of(cases[len(cases) // 3]["evs"]), "instance": cases[len(cases) // 3]["inst"],
               "events": [e["ev"] for e in cases[len(cases) // 3]["evs"]]})
    replay_cases(ck, cases, "exhaustive")
    ck.add_tlc(sim)
    sc = {json.dumps([x["inst"], w.script_of(x["evs"])], sort_keys=True): x for x in sim.cases()}
    replay_cases(ck, list(sc.values()), "simulated")
    for must in ("rewind", "cleanup", "rootfail", "fail", "handled", "finish"):
        ck.require(ck.actions.get(must), "no exported schedule contains a %s event (vacuous)" % must)
    ck.stage("I->S: random schedules on random trees")
    nrand = 250 if tier == "quick" else 3000
    traces = collect(ck, c.pmap(_random_trace, [(sd, k) for k in range(nrand)], chunksize=4), "random schedules")
    if traces:
        ck.sample({"I->S random-tree trace (instance, events)": [traces[0]["inst"], [e["ev"] for e in traces[0]["evs"]][:40]]})
    validate(ck, traces, "random")
    ck.stage("I->S: natural failures through gen_coords")
    melt = str(FIX / "e5b" / "melt.top")
    nat = [(melt, 3.0, 3000.0, nr, sd * 100 + k, None, None) for k, nr in enumerate([2, 3, 5] if tier == "quick" else [1, 2, 3, 4, 5, 2, 3, 5, 3, 2, 4, 5])]
    nat += [(melt, 2.9, 2000.0, 3, sd * 100 + 50 + k, None, None) for k in range(1 if tier == "quick" else 4)]
    ntr = collect(ck, c.pmap(_natural_trace, nat), "natural failures")
    if ck.require(bool(ntr), "no natural gen_coords run finished within its time limit"):
        validate(ck, ntr, "natural")
    for must in ("trace:rewind", "trace:cleanup", "trace:fail", "trace:rootfail"):
        ck.require(ck.actions.get(must), "the recorded traces contain no %s event (vacuous)" % must)
    ck.stage("I->S: builds around the 5000-point tree threshold of the engine")
    before = ck.actions.get("trace:rewind", 0)
    thr = [(sd * 100 + 70 + k, nw) for k, nw in enumerate([4978, 4977] if tier == "quick" else [4978, 4977, 4979, 4976, 4978, 5001])]
    ttr = collect(ck, c.pmap(_threshold_trace, thr), "tree threshold")
    if ck.require(bool(ttr), "no threshold run finished within its time limit"):
        validate(ck, ttr, "threshold")
        ck.require(ck.actions.get("trace:rewind", 0) > before, "the threshold runs contain no rewind (vacuous)")
    ck.stage("binding demonstration")
    if not traces:
        ck.require(False, "no random-schedule trace available for the binding demonstration")
        return ck.finish()
    demo = json.loads(json.dumps(traces[:3]))
    k = next(i for i, e in enumerate(demo[0]["evs"]) if e["ev"] in ("ok", "root"))
    demo[0]["evs"][k]["pos"][demo[0]["evs"][k]["mol"] - 1] = []
    rej, _ = validate(ck, demo, "demo", expect_reject=True)
    if 1 not in rej:
        raise c.MachineryError("binding demonstration failed: a trace with a corrupted positioned set was accepted")
    ck.extra["binding_demo"] = "trace with one corrupted positioned set rejected after %d matched events" % rej[1]
    ck.extra["no_verdict_runs"] = ck.extra.get("no_verdict_runs", 0)
    ck.exhaustive = True
    return ck.finish()


def replay(path):
    doc = json.loads(open(path).read())
    case = doc["case"]
    ck = c.Check("C17", "quick")
    if case["kind"] == "S->I":
        replay_cases(ck, [{"inst": case["inst"], "evs": case["evs"]}], "replay")
    elif case["kind"] == "I->S trace":
        validate(ck, [{"inst": case["inst"], "evs": case["evs"]}], "replay")
    print("replayed: %s" % ("violation reproduced" if ck.violations else "no violation"))
    return 1 if ck.violations else 0
