"""C19 - dsDNA completion adds the antiparallel Watson-Crick complement.

spec/SeqInput.tla   P-layer Complement (residue n+k pairs with n+1-k, 5'/3' exchanged, labels copied, ring closed),
                    MirrorLaw, Involution, Rejected; I-layer CStart / CStep (walk towards lower residue ids, BASE_LIBRARY)
spec/SeqInputMC.tla     instance: all strands of length 1-5 (thorough 6) over {A,C,G,T}, linear with terminal names and circular
                        (n >= 3), one labelled edge, an unknown name at every position
spec/SeqInputExport.tla S->I cases; spec/SeqInputTrace.tla I->S records

S->I : every exported strand is completed by the real complement_dsDNA (directly; for plain strands also from a rendered
       .ig / .fasta file through the parsers; a subset through gen_params -dsdna with a synthetic 12-block force field, observing
       the MetaMolecule handed to MapToMolecule and the residues of the .itp); the added strand is completed once more (involution).
I->S : seeded random long strands, records (input, observed graph, second completion) judged by TLC.
"""
import copy
import json
import random

from .. import common as c
from .. import seq_util as u

FAST = {"JAVA_TOOL_OPTIONS": "-Xss64m -XX:TieredStopAtLevel=1"}     # short TLC runs: no C2 compilation (3x less CPU)
PROP = "C19"
DEVS = [("PairTable", "Final"), ("TermNoSwap", "Final"), ("Direction", "Final"), ("NoLabelCopy", "Final"),
        ("StartByKey", "Final"), ("WalkToResid1", "Final")]


def key(inp):
    return json.dumps(inp, sort_keys=True)


def _file_input(inp):
    """a plain strand as the abstract .ig / .fasta file input that produces it"""
    letters = u.dna_letters(inp)
    n = len(letters)
    lines = [n] if n < 4 else [2, n - 2]
    fmt = "ig" if (inp["circ"] or n % 2) else "fasta"
    return {"fam": "file", "fmt": fmt, "kind": "DNA", "toks": letters, "lines": lines, "circ": bool(inp["circ"]),
            "terOwn": False, "nl": True}


def _check_result(r, case):
    """compare one observed completion with the exported expectation -> None | text"""
    if case["rej"]:
        return None if r["rej"] else "a strand with an unknown residue name was not rejected"
    if r["rej"]:
        return "the strand was rejected (%s)" % r.get("why")
    why = u.diff(r["g"], u.norm_expected(case["g"]))
    if why:
        return why
    if case["inp"].get("rounds", 1) == 2 and "g2" in r:
        why = u.diff(r["g2"], u.norm_expected(case["g2"]))
        if why:
            return "completing the added strand again in place (same molecule): " + why
    why = u.diff(r["back"], u.norm_expected(case["back"]))
    if why:
        return "completing a fresh copy of the added strand does not give back the first strand: " + why
    return None


def _run_case(case, wd, stem, via_file, via_gp, ff):
    from polyply.src.meta_molecule import MetaMolecule
    inp = case["inp"]
    r = u.run_dsdna(inp, wd, stem)
    why = _check_result(r, case)
    if why:
        return why, r, "complement_dsDNA(%s)" % json.dumps(inp)
    if via_gp and not case["rej"] and not u.plain_keys(inp):
        # strands with 1-based / sparse / shuffled node keys or residue ids from 11: the .json through gen_params -dsdna
        g = u.run_gen_params(wd, stem, ff, seq_file=u.render_strand_json(inp, wd, stem), dsdna=True, base=inp["first"] - 1)
        why = ("raised %s" % g["exc"]) if "exc" in g else u.diff(g["g"], u.norm_expected(case["g"]))
        if why:
            return "gen_params -dsdna (.json): " + why, g, json.dumps(inp)
    plain = (not case["rej"]) and inp["tag"] == 0 and len(inp["names"]) >= 2 and u.plain_keys(inp)
    if via_file and plain:
        # the same strand read from a real file: parser -> MetaMolecule -> complement_dsDNA
        finp = _file_input(inp)
        p, text = u.render_file(finp, wd, stem)
        try:
            mm = MetaMolecule.from_sequence_file(None, p, "test")
            st, mm2 = u.complete(mm)
            obs = {"rej": True, "why": mm2} if st == "rej" else {"rej": False, "g": u.project_graph(mm2), "back": r["back"]}
        except Exception as exc:
            obs = {"rej": False, "g": u._exc(exc), "back": r["back"]}
        why = _check_result(obs, case)
        if why:
            return "from file: " + why, obs, text
        if via_gp:
            g = u.run_gen_params(wd, stem, ff, seq_file=p, dsdna=True)
            if "exc" in g:
                return "gen_params -dsdna raised %s" % g["exc"], g, text
            exp = u.norm_expected(case["g"])
            why = u.diff(g["g"], exp)
            if not why and g["itp"] is None:
                why = "raised %s after the residue graph was built" % g["after"]
            elif not why and g["itp"] != [[i + 1, nm] for i, nm in enumerate(exp["name"])]:
                why = "residues of the .itp are %s" % (g["itp"][:10],)
            if why:
                return "gen_params -dsdna: " + why, g, text
    return None, r, ""


def _top_has_max_key(inp):
    keys = list(u._seq(inp.get("keys", [])))
    return not keys or keys[-1] == max(keys)


def _replay_chunk(arg):
    ci, cases, wd, ff, gp_every = arg
    u.setenv()
    bad = []
    nfile = ngp = 0
    for k, case in cases:
        via_gp = gp_every > 0 and k % gp_every == 0
        why, obs, text = _run_case(case, wd, "d%d" % ci, True, via_gp, ff)
        plain = (not case["rej"]) and case["inp"]["tag"] == 0 and len(case["inp"]["names"]) >= 2 and u.plain_keys(case["inp"])
        nfile += plain
        ngp += (plain and via_gp) or bool(via_gp and not case["rej"] and not u.plain_keys(case["inp"]))
        if why:
            bad.append((k, why, obs, text))
    return bad, len(cases), nfile, ngp


def _replay(ck, cases, gp_every, label="dsdna"):
    if not cases:
        raise c.MachineryError("TLC exported no cases")
    wd = c.workdir(PROP, "replay_" + label)
    ff = wd / "universe.ff"
    u.universe_ff(ff)
    parts = [(i, ch, str(wd), str(ff), gp_every) for i, ch in enumerate(c.chunks(list(enumerate(cases)), c.NPROC * 3))]
    nfile = ngp = 0
    for bad, n, nf, ng in c.pmap(_replay_chunk, parts):
        ck.evaluations += n + nf + ng
        nfile += nf
        ngp += ng
        for k, why, obs, text in bad:
            case = cases[k]
            ck.violation({"kind": "S->I dsdna", "case": case, "observed": obs, "rendered": text},
                         what="strand %s%s%s: %s" % (" ".join(case["inp"]["names"]), " (circular)" if case["inp"]["circ"] else "",
                                                     " label on edge %d" % case["inp"]["tag"] if case["inp"]["tag"] else "", why))
    ck.replayed += len(cases)
    for case in cases:
        ck.nontrivial.add(key(case["inp"]))
    ck.extra["completed_from_rendered_files"] = ck.extra.get("completed_from_rendered_files", 0) + nfile
    ck.extra["through_gen_params_dsdna"] = ck.extra.get("through_gen_params_dsdna", 0) + ngp
    ck.extra["rejection_cases"] = sum(1 for x in cases if x["rej"])
    ck.extra["instance_corners"] = {
        "node_keys_not_0_based": sum(1 for x in cases if list(x["inp"]["keys"]) != list(range(len(x["inp"]["names"])))),
        "residue_ids_not_from_1": sum(1 for x in cases if x["inp"]["first"] != 1),
        "circular_not_from_1": sum(1 for x in cases if x["inp"]["first"] != 1 and x["inp"]["circ"]),
        "completed_twice_in_place": sum(1 for x in cases if x["inp"]["rounds"] == 2 and not x["rej"]),
        "largest_key_not_on_3prime_residue": sum(1 for x in cases if not _top_has_max_key(x["inp"]))}
    if not all(ck.extra["instance_corners"].values()):
        raise c.MachineryError("vacuous instance: %s" % ck.extra["instance_corners"])


# ------------------------------------------------------------------ I -> S

def gen_inputs(ntr, sd, big):
    rng = random.Random(sd)
    out = []
    for t in range(ntr):
        n = rng.randint(6, 600 if big and t % 15 == 0 else 200)
        circ = rng.random() < 0.4
        letters = [rng.choice("ACGT") for _ in range(n)]
        names = ["D" + x for x in letters]
        if not circ:
            names[0] += "5"
            names[-1] += "3"
        if t % 7 == 3:
            names[rng.randrange(n)] = rng.choice(["DX", "U", "DA53", "ALA", "da", "DT35"])
        kind = rng.choice(["zero", "zero", "one", "gap", "shuftop", "shuf"])
        if kind == "zero":
            keys = list(range(n))
        elif kind == "one":
            keys = list(range(1, n + 1))
        else:
            keys = sorted(rng.sample(range(0, 3 * n + 5), n))
            if kind != "gap":
                top = keys[-1]
                rest = keys[:-1]
                rng.shuffle(rest)
                keys = rest + [top]
                if kind == "shuf":                   # anything goes: the largest key may sit anywhere
                    rng.shuffle(keys)
        first = 1 if kind == "zero" else rng.choice([1, 1, 2, 11, rng.randint(3, 500)])
        inp = {"fam": "dsdna", "names": names, "circ": circ, "tag": rng.randint(1, n - 1) if rng.random() < 0.4 else 0,
               "keys": keys, "first": first, "rounds": 2}
        out.append(inp)
    return out


def _record_chunk(arg):
    ci, inps, wd = arg
    u.setenv()
    out = []
    for inp in inps:
        r = u.run_dsdna(inp, wd, "r%d" % ci)
        ev = {"act": "Result", "rej": bool(r["rej"]), "g": u.obs_for_trace(r.get("g")), "back": u.obs_for_trace(r.get("back")),
              "g2": u.obs_for_trace(r.get("g2"))}
        out.append({"inp": inp, "events": [ev]})
    return out


def record(inps):
    traces = []
    wd = c.workdir(PROP, "rec")
    for part in c.pmap(_record_chunk, [(i, ch, str(wd)) for i, ch in enumerate(c.chunks(inps, c.NPROC * 2))]):
        traces.extend(part)
    return traces


def validate_batches(ck, traces, name, size=150):
    nbad = 0
    parts = c.chunks(traces, max(1, (len(traces) + size - 1) // size))
    from concurrent.futures import ThreadPoolExecutor
    with ThreadPoolExecutor(max(1, min(4, c.NPROC // 2))) as ex:
        results = list(ex.map(lambda bp: u.validate(bp[1], "%s_%d" % (name, bp[0]), prop=PROP), enumerate(parts)))
    bad = []
    for part, (res, rejected) in zip(parts, results):
        ck.add_tlc(res)
        ck.traces += len(part) - len(rejected)
        for tid, matched in sorted(rejected.items()):
            part[tid - 1]["_rejected"] = True
            bad.append(part[tid - 1])
    for tr in bad:
        nbad += 1
        ck.violation({"kind": "I->S trace", "trace": {"inp": tr["inp"], "events": tr["events"]}},
                     what="completion of a %d-residue %s strand recorded from complement_dsDNA rejected by SeqInput (input %s...)" % (
                         len(tr["inp"]["names"]), "circular" if tr["inp"]["circ"] else "linear", json.dumps(tr["inp"])[:200]))
    return nbad


def binding_demo(ck, traces):
    ok = [t for t in traces if not t["events"][0]["rej"] and not t.get("_rejected") and t["events"][0]["g"]["n"] >= 12]
    demo = copy.deepcopy(ok[:4])
    if len(demo) < 4:
        if ck.violations:
            ck.note("binding demonstration skipped: fewer than 4 accepted records")
            return
        raise c.MachineryError("binding demonstration: not enough traces")
    g = demo[1]["events"][0]["g"]
    n = g["n"] // 2
    g["name"][n + 2] = {"DA": "DG", "DC": "DT", "DG": "DA", "DT": "DC"}.get(g["name"][n + 2], "DA")   # one wrong base in the added strand
    b = demo[2]["events"][0]["back"]
    b["edges"] = b["edges"][1:]                                                                       # second completion lost an edge
    _, rej = u.validate(demo, "binding", prop=PROP)
    if set(rej) != {2, 3}:
        raise c.MachineryError("binding demonstration failed: corrupted traces 2 and 3 expected to be rejected, got %s" % sorted(rej))
    ck.extra["binding_demo"] = "of 4 recorded completions the 2 corrupted ones (one base of the added strand; one edge of the second completion) were rejected"


# ------------------------------------------------------------------ entry points

def run(tier):
    ck = c.Check(PROP, tier)
    q = tier == "quick"
    import polyply  # noqa: F401  (imported before the worker pools fork)
    sd = c.seed()
    ck.rule = ("S->I: TLC enumerates every strand of length 1-5 (thorough 1-6) over {A,C,G,T}: one residue with each of the 12 known names, "
               "linear with 5'/3' terminal names, circular (n >= 3), each also with one labelled backbone edge (n <= 4/5), and every strand "
               "of length <= 3 with one of 4 unknown names at every position; each is completed by the real complement_dsDNA (directly, from "
               "a rendered .ig/.fasta file, a subset through gen_params -dsdna) and the added strand is completed once more; a case is distinct "
               "by its abstract input; strands of length <= 4 also with 1-based / sparse / shuffled node keys (largest key on or off the 3' residue) "
               "and residue ids from 11, every accepted strand is completed a second time in place. I->S: seeded random strands of 6-200 (thorough -600) residues, linear / circular / labelled / with an "
               "unknown name, judged by TLC")
    ck.assumptions = ["strands are given as the readers of polyply produce them: 0-based strands directly, every other choice of node keys "
                      "(1-based, sparse, in any order against the residue ids) and of the first residue id through a rendered .json file; "
                      "residue ids of a strand are consecutive",
                      "rejection = IOError or KeyError raised by complement_dsDNA (the code raises KeyError when the last residue is unknown)",
                      "a one-residue strand is given with an explicit known name (DA, DA5, DA3 ...); the file readers name it DA53, which is rejected",
                      "trusted: TLC, the rendering and projection in harness/seq_util.py, networkx"]
    ck.stage("TLC: export (with all invariants and laws) and sensitivity runs, concurrently")
    jobs = [("SeqInputExport", "Seq_ds_%s.cfg" % ("q" if q else "t"), {"workers": 6 if q else 10, "env": FAST})]
    jobs += [("SeqInputMC", "Seq_dev_%s.cfg" % d, {"check": False, "workers": 1, "env": FAST}) for d, _ in DEVS]
    res = c.tlc_many(jobs)
    ck.model_must_hold(res[0], "Shape/Final/OrigKept/Laws (Involution, MirrorLaw, table = Watson-Crick law)/Grows")
    for (d, inv), r in zip(DEVS, res[1:]):
        ck.model_must_refute(r, inv, "deviation %s" % d)
    ck.extra["deviations_refuted"] = [d for d, _ in DEVS]
    cases = res[0].cases()
    ck.stage("replay")
    mid = [x for x in cases if x["inp"]["circ"] and not x["rej"]]
    ck.sample({"S->I strand": mid[len(mid) // 2]["inp"], "expected": mid[len(mid) // 2]["g"]})
    rj = [x for x in cases if x["rej"]]
    ck.sample({"S->I strand": rj[len(rj) // 2]["inp"], "expected": "rejected"})
    _replay(ck, cases, 12 if q else 4)
    if not ck.extra["rejection_cases"] or not ck.extra["through_gen_params_dsdna"]:
        raise c.MachineryError("no rejection cases / no gen_params runs (vacuous)")
    ck.stage("I->S: record")
    inps = gen_inputs(240 if q else 1500, sd, big=not q)
    traces = record(inps)
    ck.evaluations += len(traces)
    for tr in traces:
        ck.nontrivial.add(key(tr["inp"]))
    ck.sample({"I->S record": {"names": traces[1]["inp"]["names"][:12] + ["..."], "circ": traces[1]["inp"]["circ"], "tag": traces[1]["inp"]["tag"],
                               "observed residues": traces[1]["events"][0]["g"]["n"], "rejected": traces[1]["events"][0]["rej"]}})
    ck.stage("I->S: validate")
    validate_batches(ck, traces, "main")
    binding_demo(ck, traces)
    ck.exhaustive = True
    return ck.finish()


def replay(path):
    doc = json.loads(open(path).read())
    case = doc["case"]
    if case["kind"].startswith("S->I"):
        wd = c.workdir(PROP, "replay_one")
        ff = wd / "universe.ff"
        u.universe_ff(ff)
        bad, _, _, _ = _replay_chunk((0, [(0, case["case"])], str(wd), str(ff), 1))
        for _, why, obs, text in bad:
            print("still differs: %s\n  %s\n  observed: %s" % (why, text, json.dumps(obs)[:1500]))
        if not bad:
            print("replayed: matches now")
        return 1 if bad else 0
    _, rej = u.validate([case["trace"]], "replay_one", prop=PROP)
    print("replayed: %s" % ("still rejected" if rej else "accepted now"))
    return 1 if rej else 0
