"""C19 - dsDNA completion adds the antiparallel Watson-Crick complement.

spec/SeqInput.tla   P-layer Complement (residue n+k pairs with n+1-k, 5'/3' exchanged, labels copied, ring closed),
                    MirrorLaw, Involution, Rejected; I-layer CStart / CStep (walk towards lower residue ids, BASE_LIBRARY)
spec/SeqInputMC.tla     instance: all strands of length 1-5 (thorough 6) over {A,C,G,T}, linear with terminal names and circular
                        (n >= 3), one labelled edge, an unknown name at every position
spec/SeqInputExport.tla S->I cases; spec/SeqInputTrace.tla I->S records

S->I : every exported strand is completed by the real complement_dsDNA (directly; for plain strands also from a rendered
       .ig / .fasta file through the parsers; a subset through gen_params -dsdna with a synthetic 12-block force field, observing
       the MetaMolecule handed to MapToMolecule and the residues of the .itp); the added strand is completed once more (involution).
I->S : seeded random long strands, records (input, observed graph, second completion) judged by TLC.

Call histories (spec/SeqCallsP.tla, SeqCalls.tla, SeqCallsTrace.tla; harness/seq_calls_util.py): the process and the file system are
state.  One Python process calls the real gen_params again and again - the same unchanged sequence file several times, with and
without -dsdna, other sources in between, a file rewritten between two calls; every call must return ExpCall(current content, flag).
S->I : every history of the instance exported by TLC is replayed in one process; I->S: seeded random process scripts on long
       strands (.fasta / .ig / .json / -seq) are recorded and judged by SeqCallsTrace.
"""
import copy
import json
import random
from pathlib import Path

from .. import common as c
from .. import seq_util as u
from .. import seq_calls_util as cu

FAST = {"JAVA_TOOL_OPTIONS": "-Xss64m -XX:TieredStopAtLevel=1"}     # short TLC runs: no C2 compilation (3x less CPU)
PROP = "C19"
DEVS = [("PairTable", "Final"), ("TermNoSwap", "Final"), ("Direction", "Final"), ("NoLabelCopy", "Final"),
        ("StartByKey", "Final"), ("WalkToResid1", "Final")]
# deviations of the call histories (SeqCalls.tla): cfg suffix, law that TLC must refute
HDEVS = [("keepsParsed", "CallLaw"), ("keepsCopyByPath", "CallLaw"), ("keepsParsedRep", "Repeatable")]


def key(inp):
    return json.dumps(inp, sort_keys=True)


def _file_input(inp):
    """a plain strand as the abstract .ig / .fasta file input that produces it"""
    letters = u.dna_letters(inp)
    n = len(letters)
    lines = [n] if n < 4 else [2, n - 2]
    fmt = "ig" if (inp["circ"] or n % 2) else "fasta"
    return {"fam": "file", "fmt": fmt, "kind": "DNA", "toks": letters, "lines": lines, "circ": bool(inp["circ"]),
            "terOwn": False, "nl": True}


def _check_result(r, case):
    """compare one observed completion with the exported expectation -> None | text"""
    if case["rej"]:
        return None if r["rej"] else "a strand with an unknown residue name was not rejected"
    if r["rej"]:
        return "the strand was rejected (%s)" % r.get("why")
    why = u.diff(r["g"], u.norm_expected(case["g"]))
    if why:
        return why
    if case["inp"].get("rounds", 1) == 2 and "g2" in r:
        why = u.diff(r["g2"], u.norm_expected(case["g2"]))
        if why:
            return "completing the added strand again in place (same molecule): " + why
    why = u.diff(r["back"], u.norm_expected(case["back"]))
    if why:
        return "completing a fresh copy of the added strand does not give back the first strand: " + why
    return None


def _run_case(case, wd, stem, via_file, via_gp, ff):
    from polyply.src.meta_molecule import MetaMolecule
    inp = case["inp"]
    r = u.run_dsdna(inp, wd, stem)
    why = _check_result(r, case)
    if why:
        return why, r, "complement_dsDNA(%s)" % json.dumps(inp)
    if via_gp and not case["rej"] and not u.plain_keys(inp):
        # strands with 1-based / sparse / shuffled node keys or residue ids from 11: the .json through gen_params -dsdna
        g = u.run_gen_params(wd, stem, ff, seq_file=u.render_strand_json(inp, wd, stem), dsdna=True, base=inp["first"] - 1)
        why = ("raised %s" % g["exc"]) if "exc" in g else u.diff(g["g"], u.norm_expected(case["g"]))
        if why:
            return "gen_params -dsdna (.json): " + why, g, json.dumps(inp)
    plain = (not case["rej"]) and inp["tag"] == 0 and len(inp["names"]) >= 2 and u.plain_keys(inp)
    if via_file and plain:
        # the same strand read from a real file: parser -> MetaMolecule -> complement_dsDNA
        finp = _file_input(inp)
        p, text = u.render_file(finp, wd, stem)
        try:
            mm = MetaMolecule.from_sequence_file(None, p, "test")
            st, mm2 = u.complete(mm)
            obs = {"rej": True, "why": mm2} if st == "rej" else {"rej": False, "g": u.project_graph(mm2), "back": r["back"]}
        except Exception as exc:
            obs = {"rej": False, "g": u._exc(exc), "back": r["back"]}
        why = _check_result(obs, case)
        if why:
            return "from file: " + why, obs, text
        if via_gp:
            g = u.run_gen_params(wd, stem, ff, seq_file=p, dsdna=True)
            if "exc" in g:
                return "gen_params -dsdna raised %s" % g["exc"], g, text
            exp = u.norm_expected(case["g"])
            why = u.diff(g["g"], exp)
            if not why and g["itp"] is None:
                why = "raised %s after the residue graph was built" % g["after"]
            elif not why and g["itp"] != [[i + 1, nm] for i, nm in enumerate(exp["name"])]:
                why = "residues of the .itp are %s" % (g["itp"][:10],)
            if why:
                return "gen_params -dsdna: " + why, g, text
    return None, r, ""


def _top_has_max_key(inp):
    keys = list(u._seq(inp.get("keys", [])))
    return not keys or keys[-1] == max(keys)


def _replay_chunk(arg):
    ci, cases, wd, ff, gp_every = arg
    u.setenv()
    bad = []
    nfile = ngp = 0
    for k, case in cases:
        via_gp = gp_every > 0 and k % gp_every == 0
        why, obs, text = _run_case(case, wd, "d%d" % ci, True, via_gp, ff)
        plain = (not case["rej"]) and case["inp"]["tag"] == 0 and len(case["inp"]["names"]) >= 2 and u.plain_keys(case["inp"])
        nfile += plain
        ngp += (plain and via_gp) or bool(via_gp and not case["rej"] and not u.plain_keys(case["inp"]))
        if why:
            bad.append((k, why, obs, text))
    return bad, len(cases), nfile, ngp


def _replay(ck, cases, gp_every, label="dsdna"):
    if not cases:
        raise c.MachineryError("TLC exported no cases")
    wd = c.workdir(PROP, "replay_" + label)
    ff = wd / "universe.ff"
    u.universe_ff(ff)
    parts = [(i, ch, str(wd), str(ff), gp_every) for i, ch in enumerate(c.chunks(list(enumerate(cases)), c.NPROC * 3))]
    nfile = ngp = 0
    for bad, n, nf, ng in c.pmap(_replay_chunk, parts):
        ck.evaluations += n + nf + ng
        nfile += nf
        ngp += ng
        for k, why, obs, text in bad:
            case = cases[k]
            ck.violation({"kind": "S->I dsdna", "case": case, "observed": obs, "rendered": text},
                         what="strand %s%s%s: %s" % (" ".join(case["inp"]["names"]), " (circular)" if case["inp"]["circ"] else "",
                                                     " label on edge %d" % case["inp"]["tag"] if case["inp"]["tag"] else "", why))
    ck.replayed += len(cases)
    for case in cases:
        ck.nontrivial.add(key(case["inp"]))
    ck.extra["completed_from_rendered_files"] = ck.extra.get("completed_from_rendered_files", 0) + nfile
    ck.extra["through_gen_params_dsdna"] = ck.extra.get("through_gen_params_dsdna", 0) + ngp
    ck.extra["rejection_cases"] = sum(1 for x in cases if x["rej"])
    ck.extra["instance_corners"] = {
        "node_keys_not_0_based": sum(1 for x in cases if list(x["inp"]["keys"]) != list(range(len(x["inp"]["names"])))),
        "residue_ids_not_from_1": sum(1 for x in cases if x["inp"]["first"] != 1),
        "circular_not_from_1": sum(1 for x in cases if x["inp"]["first"] != 1 and x["inp"]["circ"]),
        "completed_twice_in_place": sum(1 for x in cases if x["inp"]["rounds"] == 2 and not x["rej"]),
        "largest_key_not_on_3prime_residue": sum(1 for x in cases if not _top_has_max_key(x["inp"]))}
    if not all(ck.extra["instance_corners"].values()):
        raise c.MachineryError("vacuous instance: %s" % ck.extra["instance_corners"])


# ------------------------------------------------------------------ I -> S

def gen_inputs(ntr, sd, big):
    rng = random.Random(sd)
    out = []
    for t in range(ntr):
        n = rng.randint(6, 600 if big and t % 15 == 0 else 200)
        circ = rng.random() < 0.4
        letters = [rng.choice("ACGT") for _ in range(n)]
        names = ["D" + x for x in letters]
        if not circ:
            names[0] += "5"
            names[-1] += "3"
        if t % 7 == 3:
            names[rng.randrange(n)] = rng.choice(["DX", "U", "DA53", "ALA", "da", "DT35"])
        kind = rng.choice(["zero", "zero", "one", "gap", "shuftop", "shuf"])
        if kind == "zero":
            keys = list(range(n))
        elif kind == "one":
            keys = list(range(1, n + 1))
        else:
            keys = sorted(rng.sample(range(0, 3 * n + 5), n))
            if kind != "gap":
                top = keys[-1]
                rest = keys[:-1]
                rng.shuffle(rest)
                keys = rest + [top]
                if kind == "shuf":                   # anything goes: the largest key may sit anywhere
                    rng.shuffle(keys)
        first = 1 if kind == "zero" else rng.choice([1, 1, 2, 11, rng.randint(3, 500)])
        inp = {"fam": "dsdna", "names": names, "circ": circ, "tag": rng.randint(1, n - 1) if rng.random() < 0.4 else 0,
               "keys": keys, "first": first, "rounds": 2}
        out.append(inp)
    return out


def _record_chunk(arg):
    ci, inps, wd = arg
    u.setenv()
    out = []
    for inp in inps:
        r = u.run_dsdna(inp, wd, "r%d" % ci)
        ev = {"act": "Result", "rej": bool(r["rej"]), "g": u.obs_for_trace(r.get("g")), "back": u.obs_for_trace(r.get("back")),
              "g2": u.obs_for_trace(r.get("g2"))}
        out.append({"inp": inp, "events": [ev]})
    return out


def record(inps):
    traces = []
    wd = c.workdir(PROP, "rec")
    for part in c.pmap(_record_chunk, [(i, ch, str(wd)) for i, ch in enumerate(c.chunks(inps, c.NPROC * 2))]):
        traces.extend(part)
    return traces


def validate_batches(ck, traces, name, size=150):
    nbad = 0
    parts = c.chunks(traces, max(1, (len(traces) + size - 1) // size))
    from concurrent.futures import ThreadPoolExecutor
    with ThreadPoolExecutor(max(1, min(4, c.NPROC // 2))) as ex:
        results = list(ex.map(lambda bp: u.validate(bp[1], "%s_%d" % (name, bp[0]), prop=PROP), enumerate(parts)))
    bad = []
    for part, (res, rejected) in zip(parts, results):
        ck.add_tlc(res)
        ck.traces += len(part) - len(rejected)
        for tid, matched in sorted(rejected.items()):
            part[tid - 1]["_rejected"] = True
            bad.append(part[tid - 1])
    for tr in bad:
        nbad += 1
        ck.violation({"kind": "I->S trace", "trace": {"inp": tr["inp"], "events": tr["events"]}},
                     what="completion of a %d-residue %s strand recorded from complement_dsDNA rejected by SeqInput (input %s...)" % (
                         len(tr["inp"]["names"]), "circular" if tr["inp"]["circ"] else "linear", json.dumps(tr["inp"])[:200]))
    return nbad


def binding_demo(ck, traces):
    ok = [t for t in traces if not t["events"][0]["rej"] and not t.get("_rejected") and t["events"][0]["g"]["n"] >= 12]
    demo = copy.deepcopy(ok[:4])
    if len(demo) < 4:
        if ck.violations:
            ck.note("binding demonstration skipped: fewer than 4 accepted records")
            return
        raise c.MachineryError("binding demonstration: not enough traces")
    g = demo[1]["events"][0]["g"]
    n = g["n"] // 2
    g["name"][n + 2] = {"DA": "DG", "DC": "DT", "DG": "DA", "DT": "DC"}.get(g["name"][n + 2], "DA")   # one wrong base in the added strand
    b = demo[2]["events"][0]["back"]
    b["edges"] = b["edges"][1:]                                                                       # second completion lost an edge
    _, rej = u.validate(demo, "binding", prop=PROP)
    if set(rej) != {2, 3}:
        raise c.MachineryError("binding demonstration failed: corrupted traces 2 and 3 expected to be rejected, got %s" % sorted(rej))
    ck.extra["binding_demo"] = "of 4 recorded completions the 2 corrupted ones (one base of the added strand; one edge of the second completion) were rejected"


# ------------------------------------------------------------------ call histories (SeqCalls.tla): one process, many calls

def _hist_chunk(arg):
    ci, items, files, wd, ff = arg
    u.setenv()
    bad, ncalls = [], 0
    for k, hist in items:
        mis, n = cu.run_history(hist, files, wd, "h%d_%d" % (ci, k), ff)
        ncalls += n
        if mis:
            bad.append((k, mis))
        for f in list(Path(wd).glob("h%d_%d*" % (ci, k))):
            f.unlink()
    return bad, ncalls


def _pmap_fresh(func, items):
    """like common.pmap, but every item is handled by a process of its own (forked for it): the histories of one item are
    exactly what that process has done, so that a stored case can be replayed with the same past"""
    import multiprocessing as mp
    items = list(items)
    with mp.get_context("fork").Pool(min(c.NPROC, max(1, len(items))), initializer=c._init_worker, maxtasksperchild=1) as pool:
        return pool.map(func, items, 1)


def _hist_stats(hists):
    """what the exported histories exercise (vacuity guard)"""
    st = {"same_unchanged_source_completed_twice": 0, "plain_call_after_completion_of_the_same_source": 0,
          "call_after_a_rejected_call_of_the_same_source": 0, "path_rewritten_between_two_calls": 0,
          "other_source_between_two_calls": 0}
    for h in hists:
        ver = {}           # source -> number of rewrites so far
        seen = []          # (src, version, ds, rej)
        flags = set()
        for e in h:
            if e["op"] == "write":
                ver[e["src"]] = ver.get(e["src"], 0) + 1
            elif e["op"] == "call":
                v = ver.get(e["src"], 0)
                for (s2, v2, ds2, rej2) in seen:
                    if s2 == e["src"] and v2 == v:
                        if ds2 and e["ds"] and not rej2:
                            flags.add("same_unchanged_source_completed_twice")
                        if ds2 and not e["ds"]:
                            flags.add("plain_call_after_completion_of_the_same_source")
                        if rej2:
                            flags.add("call_after_a_rejected_call_of_the_same_source")
                    if s2 == e["src"] and v2 != v:
                        flags.add("path_rewritten_between_two_calls")
                if len(seen) >= 2 and seen[-1][0] != e["src"] and any(x[0] == e["src"] for x in seen[:-1]):
                    flags.add("other_source_between_two_calls")
                seen.append((e["src"], v, e["ds"], e["rej"]))
        for f in flags:
            st[f] += 1
    return st


def replay_histories(ck, res):
    files = res.tagged("FILES")
    hists = res.tagged("HIST")
    if len(files) != 1 or not hists:
        raise c.MachineryError("SeqCalls exported %d FILES records and %d histories" % (len(files), len(hists)))
    files = files[0]
    hists.sort(key=lambda h: json.dumps(h, sort_keys=True))
    st = _hist_stats(hists)
    if not all(st.values()):
        raise c.MachineryError("vacuous call histories: %s" % st)
    wd = c.workdir(PROP, "calls")
    ff = wd / "universe.ff"
    u.universe_ff(ff)
    # the histories of one worker run one after the other in that process (state of earlier histories is state too)
    parts = [(i, ch, files, str(wd), str(ff)) for i, ch in enumerate(c.chunks(list(enumerate(hists)), c.NPROC * 2))]
    ncalls = 0
    for bad, n in _pmap_fresh(_hist_chunk, parts):
        ncalls += n
        for k, mis in bad:
            h = hists[k]
            # what the same worker process had replayed before (--replay runs it again first: the process is the state)
            before = next([hists[k2] for k2, _ in ch if k2 < k] for _, ch, _, _, _ in parts if any(k2 == k for k2, _ in ch))
            ck.violation({"kind": "S->I calls", "hist": h, "files": files, "mismatch": mis, "before": before},
                         what="one process: %s -> call %d: %s" % (cu.describe(h, mis["at"]), sum(1 for e in h[:mis["at"] + 1] if e["op"] == "call"), mis["why"]))
    ck.replayed += len(hists)
    ck.evaluations += ncalls
    for h in hists:
        ck.nontrivial.add("calls:" + cu.describe(h))
    mid = hists[len(hists) // 2]
    ck.sample({"S->I call history (one process)": cu.describe(mid),
               "expected residues per call": [("rejected" if e["rej"] else e["g"]["n"]) for e in mid if e["op"] == "call"]})
    ck.extra["call_histories"] = dict(st, histories=len(hists), gen_params_calls=ncalls, contents=len(files))


def _letters(rng, n):
    return [rng.choice("ACGT") for _ in range(n)]


def _lines(rng, n):
    cuts = sorted(rng.sample(range(1, n), rng.choice([0, 1, 2]))) if n > 3 else []
    return [b - a for a, b in zip([0] + cuts, cuts + [n])]


def _content(rng, src, n, t, like=None):
    """a random abstract sequence input for source src (P1 .fasta, P2 .ig, P3 .json, S -seq); like: keep the shape of that content so that
    the rendered file has the same number of bytes"""
    if src == "P1":
        kind = like["kind"] if like else ("RNA" if t % 6 == 4 else "DNA")
        return {"fam": "file", "fmt": "fasta", "kind": kind, "toks": _letters(rng, n), "lines": list(like["lines"]) if like else _lines(rng, n),
                "circ": False, "terOwn": False, "nl": True, "hdr": list(kind)}
    if src == "P2":
        return {"fam": "file", "fmt": "ig", "kind": "DNA", "toks": _letters(rng, n), "lines": list(like["lines"]) if like else _lines(rng, n),
                "circ": rng.random() < 0.5, "terOwn": like["terOwn"] if like else rng.random() < 0.3, "nl": True, "hdr": list("DNA"),
                "title": list("title")}
    letters = _letters(rng, n)
    circ = src == "P3" and rng.random() < 0.4
    names = ["D" + x for x in letters]
    if not circ:
        names[0] += "5"
        names[-1] += "3"
    if src == "S":
        blocks = []
        for nm in names:
            if blocks and blocks[-1]["name"] == nm:
                blocks[-1]["cnt"] += 1
            else:
                blocks.append({"name": nm, "cnt": 1})
        return {"fam": "seqlist", "blocks": blocks}
    if rng.random() < 0.2:
        names[rng.randrange(n)] = rng.choice(["U", "ALA", "GLY", "C5", "PEO"])      # no DNA names, but blocks of the synthetic force field
    kind = rng.choice(["zero", "one", "gap", "shuf"])
    keys = list(range(n)) if kind == "zero" else list(range(1, n + 1)) if kind == "one" else sorted(rng.sample(range(0, 3 * n + 5), n))
    if kind == "shuf":
        rng.shuffle(keys)
    return {"fam": "dsdna", "names": names, "circ": circ, "tag": rng.randint(1, n - 1) if rng.random() < 0.4 else 0, "keys": keys,
            "first": 1 if kind == "zero" else rng.choice([1, 2, 11, rng.randint(3, 300)]), "rounds": 1}


def gen_call_scripts(ntr, sd, big):
    """seeded process scripts: four sources written once, then 7-10 operations - calls of gen_params (the first two on the same
    unchanged file, the first with -dsdna) and rewrites (often with a strand of the same length, time stamps put back)"""
    rng = random.Random(1000003 * sd + 19)
    out = []
    for t in range(ntr):
        nmax = 120 if big else 48
        cur = {}
        script = []
        for src in ("P1", "P2", "P3", "S"):
            cur[src] = _content(rng, src, rng.randint(6, 20 if src == "S" else nmax), t)
            script.append({"op": "write", "src": src, "inp": cur[src]})
        s0 = rng.choice(["P1", "P2", "P3"])
        script += [{"op": "call", "src": s0, "ds": True}, {"op": "call", "src": s0, "ds": rng.random() < 0.7}]
        for _ in range(rng.randint(5, 8)):
            if rng.random() < 0.22:
                src = rng.choice(["P1", "P2", "P3"])
                same = rng.random() < 0.6
                n = len(cur[src]["toks"] if src != "P3" else cur[src]["names"]) if same else rng.randint(6, nmax)
                cur[src] = _content(rng, src, n, t, like=cur[src] if (same and src != "P3") else None)
                script.append({"op": "write", "src": src, "inp": cur[src], "keepstat": same and src != "P3"})
            else:
                src = rng.choice(["P1", "P2", "P3", "P1", "P2", "P3", "S"])
                script.append({"op": "call", "src": src, "ds": True if src == "S" else rng.random() < 0.7})
        out.append(script)
    return out


def _call_chunk(arg):
    ci, scripts, wd, ff = arg
    u.setenv()
    return [cu.record_trace(sc, wd, "t%d_%d" % (ci, j), ff) for j, sc in enumerate(scripts)]


def call_traces(ck, ntr, sd, big):
    scripts = gen_call_scripts(ntr, sd, big)
    wd = c.workdir(PROP, "calls_rec")
    ff = wd / "universe.ff"
    u.universe_ff(ff)
    traces = []
    for part in _pmap_fresh(_call_chunk, [(i, ch, str(wd), str(ff)) for i, ch in enumerate(c.chunks(scripts, c.NPROC))]):
        traces.extend(part)
    ncall = sum(1 for tr in traces for e in tr if e["op"] == "call")
    ck.evaluations += ncall
    rep = sum(1 for tr in traces for a, b in zip(tr, tr[1:]) if a["op"] == b["op"] == "call" and a["src"] == b["src"] and a["ds"] and b["ds"] and not a["rej"])
    kept = sum(1 for tr in traces for e in tr if e["op"] == "write" and e["keptstat"])
    rejd = sum(1 for tr in traces for e in tr if e["op"] == "call" and e["rej"])
    if not (rep and kept and rejd):
        raise c.MachineryError("vacuous call traces: repeated completions %d, rewrites with the old size and time stamps %d, rejected calls %d" % (rep, kept, rejd))
    # binding demonstration: a wrong base in the strand added by a REPEATED call / a source changed by a call must be rejected
    cand = [k for k, tr in enumerate(traces) if not tr[4]["rej"] and not tr[5]["rej"] and tr[5]["ds"]][:3]
    demo = copy.deepcopy([traces[k] for k in cand])
    if len(demo) == 3:
        g = demo[0][5]["g"]
        g["name"][-2] = {"DA": "DG", "DC": "DT", "DG": "DA", "DT": "DC"}.get(g["name"][-2], "DA")
        demo[1][4]["unchanged"] = False
    from concurrent.futures import ThreadPoolExecutor
    with ThreadPoolExecutor(2) as ex:          # two TLC runs side by side
        fmain = ex.submit(cu.validate, traces, "calls", PROP)
        fdemo = ex.submit(cu.validate, demo, "calls_binding", PROP) if len(demo) == 3 else None
        res, rejected = fmain.result()
        rej = fdemo.result()[1] if fdemo else None
    ck.add_tlc(res)
    ck.traces += len(traces) - len(rejected)
    for tid, matched in sorted(rejected.items()):
        tr = traces[tid - 1]
        ev = tr[matched] if matched < len(tr) else {}
        ck.violation({"kind": "I->S calls trace", "trace": tr, "matched": matched},
                     what="one process, event %d of %d: gen_params(%s%s) on a source whose content is unchanged since event %s is not what SeqCalls "
                          "allows for that content (observed %s residues%s)" % (
                              matched + 1, len(tr), ev.get("src"), ", dsdna" if ev.get("ds") else "",
                              max([j + 1 for j, e in enumerate(tr[:matched]) if e["op"] == "write" and e["src"] == ev.get("src")] or [0]),
                              (ev.get("g") or {}).get("n"), ", rejected" if ev.get("rej") else ""))
    for tr in traces:
        ck.nontrivial.add("calltrace:" + json.dumps([[e["op"], e["src"], e.get("ds")] for e in tr]) + json.dumps(tr[0]["inp"])[:80])
    if rej is None or any((k + 1) in rejected for k in cand):
        if ck.violations:
            ck.note("binding demonstration of the call traces skipped: its traces are not accepted as recorded")
            return
        raise c.MachineryError("binding demonstration of the call traces: not enough traces")
    if rej != {1: 5, 2: 4}:
        raise c.MachineryError("binding demonstration of the call traces failed: expected traces 1 and 2 rejected at events 6 and 5, got %s" % rej)
    ck.extra["call_traces"] = {"processes": len(traces), "gen_params_calls": ncall, "repeated_completions_of_an_unchanged_file": rep,
                               "rewrites_keeping_size_and_time_stamps": kept, "rejected_calls": rejd,
                               "binding_demo": "of 3 recorded processes the 2 corrupted ones (one base of the strand added by the second call on "
                                               "an unchanged file; a source reported as changed by a call) were rejected at that event"}


# ------------------------------------------------------------------ entry points

def run(tier):
    ck = c.Check(PROP, tier)
    q = tier == "quick"
    import polyply  # noqa: F401  (imported before the worker pools fork)
    sd = c.seed()
    ck.rule = ("S->I: TLC enumerates every strand of length 1-5 (thorough 1-6) over {A,C,G,T}: one residue with each of the 12 known names, "
               "linear with 5'/3' terminal names, circular (n >= 3), each also with one labelled backbone edge (n <= 4/5), and every strand "
               "of length <= 3 with one of 4 unknown names at every position; each is completed by the real complement_dsDNA (directly, from "
               "a rendered .ig/.fasta file, a subset through gen_params -dsdna) and the added strand is completed once more; a case is distinct "
               "by its abstract input; strands of length <= 4 also with 1-based / sparse / shuffled node keys (largest key on or off the 3' residue) "
               "and residue ids from 11, every accepted strand is completed a second time in place. I->S: seeded random strands of 6-200 (thorough -600) residues, linear / circular / labelled / with an "
               "unknown name, judged by TLC. Call histories (the process and the file system are state): TLC enumerates every history of 3 (thorough 4) "
               "operations of one process over two paths (.json strands with shuffled keys / residue ids from 11 / an unknown name in the middle / a "
               "ring; .ig files) and the inline -seq list - gen_params with and without -dsdna, the same unchanged source again, other sources in "
               "between, at most one rewrite of a path - with the I-layer walk CStart/CStep working in place on the reader's object; CallLaw: every "
               "call returns ExpCall(current content, flag); every history is replayed through the real gen_params inside ONE process (graph handed "
               "to the mapping stage, residues of the .itp, source text unchanged); seeded process scripts of 11-14 events on .fasta/.ig/.json/-seq "
               "strands of 6-48 (thorough -120) residues, with rewrites of equal size whose time stamps are put back, are recorded and judged by "
               "SeqCallsTrace")
    ck.assumptions = ["strands are given as the readers of polyply produce them: 0-based strands directly, every other choice of node keys "
                      "(1-based, sparse, in any order against the residue ids) and of the first residue id through a rendered .json file; "
                      "residue ids of a strand are consecutive",
                      "rejection = IOError or KeyError raised by complement_dsDNA (the code raises KeyError when the last residue is unknown)",
                      "a one-residue strand is given with an explicit known name (DA, DA5, DA3 ...); the file readers name it DA53, which is rejected",
                      "call histories: unknown names of the .json strands are names of blocks of the synthetic force field (a plain call maps them); "
                      "a rejected call is an IOError / KeyError leaving gen_params before the mapping stage; every chunk of histories / scripts runs in "
                      "a process forked for it, and what that process replayed before is part of a stored case",
                      "trusted: TLC, the rendering and projection in harness/seq_util.py and harness/seq_calls_util.py, networkx"]
    ck.stage("TLC: export (with all invariants and laws) and sensitivity runs, concurrently")
    jobs = [("SeqInputExport", "Seq_ds_%s.cfg" % ("q" if q else "t"), {"workers": 6 if q else 10, "env": FAST})]
    jobs += [("SeqInputMC", "Seq_dev_%s.cfg" % d, {"check": False, "workers": 1, "env": FAST}) for d, _ in DEVS]
    jobs += [("SeqCalls", "Seq_calls_%s.cfg" % ("q" if q else "t"), {"workers": 2 if q else 6, "env": FAST})]
    jobs += [("SeqCalls", "Seq_calls_dev_%s.cfg" % d, {"check": False, "workers": 1, "env": FAST}) for d, _ in HDEVS]
    res = c.tlc_many(jobs)
    ck.model_must_hold(res[0], "Shape/Final/OrigKept/Laws (Involution, MirrorLaw, table = Watson-Crick law)/Grows")
    for (d, inv), r in zip(DEVS, res[1:]):
        ck.model_must_refute(r, inv, "deviation %s" % d)
    hres = res[1 + len(DEVS)]
    ck.model_must_hold(hres, "call histories: Shape/OrigKept/CallLaw/Repeatable/ContentLaws/CallsOnlyRead")
    for (d, inv), r in zip(HDEVS, res[2 + len(DEVS):]):
        ck.model_must_refute(r, inv, "call histories, deviation %s" % d)
    ck.extra["deviations_refuted"] = [d for d, _ in DEVS] + ["calls:" + d for d, _ in HDEVS]
    cases = sorted(res[0].cases(), key=lambda x: key(x["inp"]))       # TLC's workers print in any order: fixed order, fixed subsets
    ck.stage("replay")
    mid = [x for x in cases if x["inp"]["circ"] and not x["rej"]]
    ck.sample({"S->I strand": mid[len(mid) // 2]["inp"], "expected": mid[len(mid) // 2]["g"]})
    rj = [x for x in cases if x["rej"]]
    ck.sample({"S->I strand": rj[len(rj) // 2]["inp"], "expected": "rejected"})
    _replay(ck, cases, 12 if q else 4)
    if not ck.extra["rejection_cases"] or not ck.extra["through_gen_params_dsdna"]:
        raise c.MachineryError("no rejection cases / no gen_params runs (vacuous)")
    ck.stage("call histories: replay in one process each worker")
    replay_histories(ck, hres)
    ck.stage("call histories: record and validate process traces")
    call_traces(ck, 40 if q else 300, sd, big=not q)
    ck.stage("I->S: record")
    inps = gen_inputs(240 if q else 1500, sd, big=not q)
    traces = record(inps)
    ck.evaluations += len(traces)
    for tr in traces:
        ck.nontrivial.add(key(tr["inp"]))
    ck.sample({"I->S record": {"names": traces[1]["inp"]["names"][:12] + ["..."], "circ": traces[1]["inp"]["circ"], "tag": traces[1]["inp"]["tag"],
                               "observed residues": traces[1]["events"][0]["g"]["n"], "rejected": traces[1]["events"][0]["rej"]}})
    ck.stage("I->S: validate")
    validate_batches(ck, traces, "main")
    binding_demo(ck, traces)
    ck.exhaustive = True
    return ck.finish()


def replay(path):
    doc = json.loads(open(path).read())
    case = doc["case"]
    if case["kind"] == "S->I calls":
        u.setenv()
        wd = c.workdir(PROP, "replay_one")
        ff = wd / "universe.ff"
        u.universe_ff(ff)
        for j, h in enumerate(case.get("before", [])):
            cu.run_history(h, case["files"], str(wd), "b%d" % j, str(ff))
        mis, _ = cu.run_history(case["hist"], case["files"], str(wd), "h", str(ff))
        print("replayed %s: %s" % (cu.describe(case["hist"]), ("still differs at entry %d: %s\n  observed: %s" % (
            mis["at"], mis["why"], json.dumps(mis["observed"])[:1500])) if mis else "matches now"))
        return 1 if mis else 0
    if case["kind"] == "I->S calls trace":
        _, rej = cu.validate([case["trace"]], "replay_one", prop=PROP)
        print("replayed: %s" % ("still rejected" if rej else "accepted now"))
        return 1 if rej else 0
    if case["kind"].startswith("S->I"):
        wd = c.workdir(PROP, "replay_one")
        ff = wd / "universe.ff"
        u.universe_ff(ff)
        bad, _, _, _ = _replay_chunk((0, [(0, case["case"])], str(wd), str(ff), 1))
        for _, why, obs, text in bad:
            print("still differs: %s\n  %s\n  observed: %s" % (why, text, json.dumps(obs)[:1500]))
        if not bad:
            print("replayed: matches now")
        return 1 if bad else 0
    _, rej = u.validate([case["trace"]], "replay_one", prop=PROP)
    print("replayed: %s" % ("still rejected" if rej else "accepted now"))
    return 1 if rej else 0
