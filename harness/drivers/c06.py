"""C06 - backmapping places rigid, centred, same-handed copies of the residue template.

spec/Backmap.tla   I-layer Skip / Place(k) (one per loop iteration of Backmap._place_init_coords), P-layer Centred, TurnedScaled,
                   Scaled, SameHanded, Congruent, VSKept, Untouched, Protocol, OwnOnly (action property), RotationLaws.
S->I : BmExport behaviours (lattice templates, the 24 proper lattice rotations reached through angle triples k*pi/2, rational
       factor) rendered as real .top / .bld / .gro files, run through Topology -> build file -> GenerateTemplates -> Backmap
       with the optimiser result scripted; coordinates compared with TLC's exact rationals at 1e-9.
I->S : real gen_coords runs (real optimiser, random start angles, generated templates) on seeded random small systems; a
       recorder around Backmap.run_molecule / orient_template logs one Place event per residue with the booleans of the numeric
       monitor (harness/geom_monitor.py); BmTrace.tla validates protocol + requires the booleans.  rotate_xyz is sampled too.
"""
import json
import math
import os
import random
import types
from pathlib import Path

import numpy as np

from .. import common as c
from .. import geom_monitor as gm
from .. import tmpl_util as tu

H = 0.25            # lattice spacing in nm (exact in binary and in the 3 decimals of a .gro file)
TOL = 1e-9
BOX = 12.0


# ------------------------------------------------------------------------------------------------ S -> I

def render_case(case, wd):
    """exported case -> sys.top, sys.bld, meta.gro (all text), returns paths and the atom layout"""
    types_ = case["types"]
    residues = []
    for r, res in enumerate(case["mol"]):
        t = types_[res["type"]]
        vs_sites = {v["site"] for v in t["vs"]}
        residues.append({"resname": "R" + res["type"], "names": list(t["names"]),
                         "atypes": ["VS" if n in vs_sites else "P" for n in t["names"]],
                         "bonds": [[a, b, 0.3] for a, b in t["bonds"]], "constraints": [], "angles": [], "impropers": [],
                         "vs": [["virtual_sitesn", [v["site"]] + list(v["from"]), ["1"]] for v in t["vs"]]})
    mt = tu.molecule_from_residues("M", residues, [(i, i + 1) for i in range(len(residues) - 1)])
    sysd = {"atomtypes": tu.ATOMTYPES, "moltypes": [mt], "molecules": [["M", 1]]}
    entries = []
    for ty in sorted(types_):
        t = types_[ty]
        vs_sites = {v["site"] for v in t["vs"]}
        entries.append(("template", "R" + ty, [[n, "VS" if n in vs_sites else "P"] + [x * H for x in u] for n, u in zip(t["names"], t["u"])],
                        [list(b) for b in t["bonds"]]))
    rows = [[r + 1, "R" + res["type"], "X"] + [x * H for x in res["centre"]] for r, res in enumerate(case["mol"])]
    wd.mkdir(parents=True, exist_ok=True)
    (wd / "sys.top").write_text(tu.render_top(sysd))
    (wd / "sys.bld").write_text(tu.render_bld(entries))
    (wd / "meta.gro").write_text(tu.render_gro(rows, (BOX, BOX, BOX)))
    return wd / "sys.top", wd / "sys.bld", wd / "meta.gro"


class ScriptedOptimiser:
    """replaces scipy inside polyply.src.backmap by a shim whose minimize returns the scripted angle triples in call order"""

    def __init__(self, triples):
        import polyply.src.backmap as bm
        self.bm = bm
        self.orig = tu.need(bm, "scipy")
        self.queue = list(triples)
        self.calls = 0

        def minimize(fun, x0, *a, **kw):
            self.calls += 1
            if not self.queue:
                raise c.MachineryError("scripted optimiser called more often than the specification placed residues")
            k = self.queue.pop(0)
            return {"x": np.array([k[0] * math.pi / 2.0, k[1] * math.pi / 2.0, k[2] * math.pi / 2.0])}
        bm.scipy = types.SimpleNamespace(optimize=types.SimpleNamespace(minimize=minimize))

    def close(self):
        self.bm.scipy = self.orig


def run_exact_case(case, wd):
    """returns (verdict, detail): verdict in ok / differs / exception / precondition"""
    from polyply.src.backmap import Backmap
    top_p, bld_p, gro_p = render_case(case, wd)
    try:
        top = tu.load_topology(top_p, [bld_p], meta_gro=gro_p)
        tu.generate_templates(top)
    except Exception as exc:
        return "exception", "before backmapping: %s: %s" % (type(exc).__name__, exc)
    mm = top.molecules[0]
    # precondition of the exact comparison: the lattice templates of the build file are the residue templates
    for r, node in enumerate(mm.nodes):
        t = case["types"][case["mol"][r]["type"]]
        tv = mm.templates.get(mm.nodes[node].get("template"))
        if tv is None or set(tv) != set(t["names"]):
            return "precondition", "residue %d has no user template with names %s" % (r + 1, t["names"])
        for n, tn in zip(t["names"], t["tn"]):
            if np.abs(np.asarray(tv[n], float) - np.array(tn, float) * H / case["lcm"]).max() > TOL:
                return "precondition", "template of residue %d atom %s is %s, the build file gives %s" % (
                    r + 1, n, np.asarray(tv[n]).tolist(), (np.array(tn, float) * H / case["lcm"]).tolist())
        if np.abs(np.asarray(mm.nodes[node]["position"], float) - np.array(case["mol"][r]["centre"], float) * H).max() > TOL:
            return "precondition", "residue %d position not read back from meta.gro" % (r + 1)
    opt = ScriptedOptimiser(case["ks"])
    try:
        Backmap(fudge_coords=case["p"] / case["q"]).run_system(top)
    except c.MachineryError:
        raise
    except Exception as exc:
        return "exception", "Backmap raised %s: %s" % (type(exc).__name__, exc)
    finally:
        opt.close()
    if opt.queue:
        return "differs", "orient_template consulted the optimiser %d times for %d residues" % (opt.calls, len(case["ks"]))
    mol = top.molecules[0].molecule
    atom = 0
    for r, res in enumerate(case["mol"]):
        t = case["types"][res["type"]]
        for i, n in enumerate(t["names"]):
            d = mol.nodes[atom]
            if d.get("atomname") != n or d.get("resid") != r + 1:
                return "precondition", "atom %d is %s/%s, expected %s/%d" % (atom, d.get("atomname"), d.get("resid"), n, r + 1)
            exp = np.array(case["pos"][r][i], float) * H / case["den"]
            got = d.get("position")
            if got is None or not np.all(np.isfinite(got)) or np.abs(np.asarray(got, float) - exp).max() > TOL:
                return "differs", "residue %d (%s) atom %s: code %s, specification %s (= centre + %d/%d * R%s * template)" % (
                    r + 1, res["type"], n, None if got is None else np.asarray(got).tolist(), exp.tolist(), case["p"], case["q"], case["ks"][r])
            atom += 1
    return "ok", ""


def _replay_chunk(arg):
    idx, cases, wd = arg
    out = []
    for i, case in zip(idx, cases):
        out.append((i,) + run_exact_case(case, Path(wd) / ("c%d" % i)))
    return out


def replay_cases(ck, cases, label):
    wd = c.workdir("C06", "replay_" + label)
    idx = list(range(len(cases)))
    parts = [(ch, [cases[i] for i in ch], str(wd)) for ch in c.chunks(idx, c.NPROC * 3)]
    pre = 0
    for part in c.pmap(_replay_chunk, parts):
        for i, verdict, detail in part:
            ck.evaluations += 1
            if verdict == "precondition":
                pre += 1
                ck.note("%s case %d: %s" % (label, i, detail)) if pre <= 3 else None
            elif verdict != "ok":
                ck.violation({"kind": "S->I replay", "case": cases[i]}, what="%s: %s" % (label, detail))
    if pre:
        raise c.MachineryError("%d of %d exported cases could not be set up on the code (user template / residue position not as "
                               "rendered); C06 cannot judge them" % (pre, len(cases)))
    ck.replayed += len(cases)
    for case in cases:
        ck.nontrivial.add(json.dumps([[r["type"] for r in case["mol"]], case["ks"], case["p"], case["q"]]))
        ck.actions["Place"] = ck.actions.get("Place", 0) + len(case["ks"])


# ------------------------------------------------------------------------------------------------ I -> S : recording

class Recorder:
    """wraps Backmap.run_molecule and backmap.orient_template; one trace per molecule"""

    def __init__(self, fudge):
        import polyply.src.backmap as bm
        self.bm = bm
        self.fudge = fudge
        self.traces = []
        self.cur = None
        self.o_orient = tu.need(bm, "orient_template")
        self.o_run = tu.need(bm.Backmap, "run_molecule")
        rec = self

        def orient(meta_molecule, current_node, template, built_nodes, *a, **kw):
            if rec.cur is not None:
                rec.cur["calls"].append({"node": current_node, "built": [int(x) for x in built_nodes], "snap": rec.snapshot(meta_molecule)})
            return rec.o_orient(meta_molecule, current_node, template, built_nodes, *a, **kw)

        def run_molecule(self_, meta_molecule):
            rec.begin(meta_molecule)
            try:
                return rec.o_run(self_, meta_molecule)
            except Exception as exc:
                rec.cur["exception"] = "%s: %s" % (type(exc).__name__, exc)
                raise
            finally:
                rec.end(meta_molecule)
        bm.orient_template = orient
        bm.Backmap.run_molecule = run_molecule

    def close(self):
        self.bm.orient_template = self.o_orient
        self.bm.Backmap.run_molecule = self.o_run

    @staticmethod
    def snapshot(mm):
        return {a: (None if d.get("position") is None else np.array(d["position"], float)) for a, d in mm.molecule.nodes(data=True)}

    def begin(self, mm):
        nodes = []
        for node in mm.nodes:
            d = mm.nodes[node]
            atoms = list(d["graph"].nodes)
            nodes.append({"node": node, "resid": int(d["resid"]), "bm": bool(d.get("backmap", False)), "key": str(d.get("template")),
                          "atoms": [int(a) for a in atoms], "names": [str(mm.molecule.nodes[a].get("atomname")) for a in atoms],
                          "resname": str(d.get("resname")),
                          "position": None if d.get("position") is None else np.array(d["position"], float).tolist(),
                          "degree": int(mm.degree(node))})
        templates = {str(k): {str(n): np.array(v, float) for n, v in t.items()} for k, t in getattr(mm, "templates", {}).items()}
        self.cur = {"nodes": nodes, "templates": templates, "calls": [], "snap0": self.snapshot(mm)}

    def end(self, mm):
        cur, self.cur = self.cur, None
        final = self.snapshot(mm)
        order = {n["node"]: i + 1 for i, n in enumerate(cur["nodes"])}
        events, raws = [], []
        calls = cur["calls"]
        for i, call in enumerate(calls):
            before = call["snap"]
            after = calls[i + 1]["snap"] if i + 1 < len(calls) else final
            changed = sorted(a for a in after if _differs(before.get(a), after.get(a)))
            nd = cur["nodes"][order[call["node"]] - 1] if call["node"] in order else None
            ev = {"op": "place", "node": order.get(call["node"], 0), "built": call["built"], "key": nd["key"] if nd else "?", "changed": changed}
            verdict = {"centred": False, "rigid": False, "scale_ok": False, "proper": False, "raw": {"why": "atoms without coordinate or template name"}}
            if nd is not None and nd["position"] is not None:
                tmpl = cur["templates"].get(nd["key"], {})
                if all(n in tmpl for n in nd["names"]) and all(after.get(a) is not None and np.all(np.isfinite(after[a])) for a in nd["atoms"]):
                    verdict = gm.placement_verdict([tmpl[n] for n in nd["names"]], [after[a] for a in nd["atoms"]], nd["position"], self.fudge)
            ev.update({k: verdict[k] for k in ("centred", "rigid", "scale_ok", "proper")})
            events.append(ev)
            raws.append(verdict["raw"])
        events.append({"op": "end", "changed": sorted(a for a in final if _differs(cur["snap0"].get(a), final.get(a)))})
        raws.append({})
        self.traces.append({"nodes": [{k: n[k] for k in ("resid", "bm", "key", "atoms", "names")} for n in cur["nodes"]],
                            "tnames": {k: sorted(t) for k, t in cur["templates"].items()},
                            "events": events, "raw": raws, "exception": cur.get("exception"),
                            "info": [{"resid": n["resid"], "degree": n["degree"], "natoms": len(n["atoms"]), "resname": n["resname"],
                                      "has_vs": any(str(x).startswith("V") and len(str(x)) == 2 and str(x)[1].isdigit() for x in n["names"])} for n in cur["nodes"]]})


def _differs(a, b):
    if a is None and b is None:
        return False
    if a is None or b is None:
        return True
    return not np.array_equal(a, b)


# ------------------------------------------------------------------------------------------------ I -> S : systems

def random_system(rng):
    """seeded random small system inside the domain of C06: residues with pairwise distinct atom names, connected molecules"""
    ntypes = int(rng.integers(1, 4))
    rtypes = []
    for i in range(ntypes):
        resname = "R%d" % i if not (i == 2 and rng.random() < 0.5) else "R0"     # sometimes equal resname, different content
        rtypes.append(tu.random_residue(rng, resname, nmax=5))
    # make sure a chiral-capable residue (>= 4 real atoms, star) is present in most systems
    if rng.random() < 0.7:
        star = tu.random_residue(rng, "RC", nmax=5, with_vs=False)
        while len(star["names"]) < 4:
            star = tu.random_residue(rng, "RC", nmax=5, with_vs=False)
        rtypes.append(star)
    # ... and a residue with a virtual site (its template is re-assembled after the optimisation, which moves its centre)
    if rng.random() < 0.6:
        vsr = tu.random_residue(rng, "RV", nmax=5, with_vs=True)
        while not vsr["vs"] or len(vsr["names"]) < 4:
            vsr = tu.random_residue(rng, "RV", nmax=5, with_vs=True)
        rtypes.append(vsr)
    moltypes, molecules = [], []
    for m in range(int(rng.integers(1, 3))):
        nres = int(rng.integers(1, 6))
        seq = [rtypes[int(rng.integers(0, len(rtypes)))] for _ in range(nres)]
        if rng.random() < 0.5:
            edges = [(i, i + 1) for i in range(nres - 1)]
        else:
            edges = [(int(rng.integers(0, i)), i) for i in range(1, nres)]
        moltypes.append(tu.molecule_from_residues("M%d" % m, seq, edges, rng))
        molecules.append(["M%d" % m, int(rng.integers(1, 3))])
    return {"atomtypes": tu.ATOMTYPES, "moltypes": moltypes, "molecules": molecules}


def residue_list(sysd):
    """[(moltype name, resid, resname, [atomnames])] for every residue of every molecule instance, in topology order"""
    out = []
    mts = {m["name"]: m for m in sysd["moltypes"]}
    for name, count in sysd["molecules"]:
        for _ in range(count):
            seen = {}
            for an, resid, resname, at, mass in mts[name]["atoms"]:
                seen.setdefault((resid, resname), []).append(an)
            out += [(name, resid, resname, ans) for (resid, resname), ans in seen.items()]
    return out


def _gen_run(arg):
    """one real gen_coords run with the recorder installed; executed in a worker process under a timeout"""
    sd, kind, wd = arg
    wd = Path(wd)
    wd.mkdir(parents=True, exist_ok=True)
    rng = np.random.default_rng(sd)
    random.seed(sd)
    np.random.seed(sd % (2 ** 32))
    sysd = random_system(rng)
    fudge = float(rng.choice([0.4, 1.0, round(float(rng.uniform(0.2, 1.5)), 3)]))
    (wd / "sys.top").write_text(tu.render_top(sysd))
    res = residue_list(sysd)
    kw = {}
    box = np.array([6.0, 6.0, 6.0])
    if kind == "meta":
        # residue positions supplied (-mc): nothing is built, every residue is backmapped
        rows, p = [], np.array([3.0, 3.0, 3.0])
        for name, resid, resname, ans in res:
            p = np.clip(p + 0.5 * gm.random_rotation(rng)[0], 0.6, 5.4)
            rows.append([resid, resname, "X"] + [round(float(x), 3) for x in p])
        (wd / "meta.gro").write_text(tu.render_gro(rows, box))
        kw["coordpath_meta"] = wd / "meta.gro"
    else:
        kw["box"] = box
    # half of the runs come with a build file giving predefined sizes ([ volumes ]) for some residue names: templates of such
    # residues take another path through GenerateTemplates (size not computed from the template)
    volumes = []
    if rng.random() < 0.6:
        for rn in sorted({rn for _, _, rn, _ in res}):
            if rng.random() < (0.9 if rn == "RV" else 0.6):
                volumes.append([rn, round(float(rng.uniform(0.3, 0.55)), 3)])
    if volumes:
        (wd / "sys.bld").write_text(tu.render_bld([("volumes", volumes)]))
        kw["build"] = [wd / "sys.bld"]
    out = {"seed": sd, "kind": kind, "fudge": fudge, "system": sysd, "volumes": volumes, "traces": [], "exception": None, "stage": 1}
    from polyply.src.gen_coords import gen_coords
    rec = Recorder(fudge)
    try:
        gen_coords(toppath=wd / "sys.top", outpath=wd / "out.gro", name="verif", bfudge=fudge, **kw)
    except tu.ItemTimeout:
        raise
    except c.MachineryError:
        raise
    except Exception as exc:
        out["exception"] = "%s: %s" % (type(exc).__name__, exc)
    finally:
        rec.close()
    out["traces"] = rec.traces
    if kind == "partial" and out["exception"] is None:
        # second stage: the coordinates of stage 1 are supplied again except for one residue name, which is rebuilt (-res):
        # the supplied residues are not flagged for backmapping (Skip), their neighbours are "not built" references
        names = sorted({rn for _, _, rn, _ in res})
        drop = names[int(rng.integers(0, len(names)))]
        lines = (wd / "out.gro").read_text().splitlines()
        keep = [ln for ln in lines[2:-1] if ln[5:10].strip() != drop]
        # polyply requires supplied residue centres inside the box: a residue placed at the boundary in stage 1 can have its
        # centre of the 3-decimal coordinates marginally outside -> such a stage 2 would be an out-of-domain input, skip it
        inside = True
        at = 0
        for _, _, rn, ans in res:
            if rn == drop:
                continue
            pts = [[float(ln[20:28]), float(ln[28:36]), float(ln[36:44])] for ln in keep[at:at + len(ans)]]
            at += len(ans)
            cog = np.mean(np.array(pts), axis=0) if pts else np.array([-1.0] * 3)
            inside = inside and bool(np.all(cog > 0.02) and np.all(cog < box - 0.02))
        out["stage2_skipped_boundary"] = not inside
        if inside and keep and len(keep) < len(lines) - 3:
            (wd / "part.gro").write_text("\n".join([lines[0], "%5d" % len(keep)] + keep + [lines[-1]]) + "\n")
            rec = Recorder(fudge)
            try:
                gen_coords(toppath=wd / "sys.top", outpath=wd / "out2.gro", name="verif", bfudge=fudge, coordpath=wd / "part.gro", build_res=[drop],
                           **({"build": kw["build"]} if "build" in kw else {}))
                out["stage"] = 2
            except tu.ItemTimeout:
                raise
            except Exception as exc:
                out["exception"] = "stage 2 (-c part.gro -res %s): %s: %s" % (drop, type(exc).__name__, exc)
            finally:
                rec.close()
            for t in rec.traces:
                t["stage2"] = True
            out["traces"] += rec.traces
    return out


def rotation_samples(rng, n):
    """rotate_xyz on the identity for arbitrary and for lattice angle triples"""
    from polyply.src import linalg_functions as lf
    rot = tu.need(lf, "rotate_xyz")
    out = []
    for i in range(n):
        lattice = i % 3 == 0
        if lattice:
            k = [int(x) for x in rng.integers(-6, 9, size=3)]
            ang = [x * math.pi / 2.0 for x in k]
        else:
            k = [0, 0, 0]
            ang = [float(x) for x in rng.uniform(-4 * math.pi, 4 * math.pi, size=3)]
        try:
            M = np.asarray(rot(np.eye(3), ang[0], ang[1], ang[2]), float)
            v = gm.rotation_verdict(M, tol=1e-9)
            # acts on every column alike: a (3, N) object is turned as a whole
            X = rng.normal(size=(3, 5))
            whole = bool(np.abs(np.asarray(rot(X, ang[0], ang[1], ang[2]), float) - M @ X).max() <= 1e-9)
            out.append({"lattice": lattice, "k": k, "angles": ang, "m": [[int(round(x)) for x in row] for row in M] if lattice else [[0] * 3] * 3,
                        "orth": bool(v["orth"] and whole), "det_ok": v["det_ok"], "raw": {"det": v["det"], "orth_err": v["orth_err"], "whole": whole,
                                                                                     "matrix": M.tolist()}})
        except Exception as exc:
            out.append({"lattice": lattice, "k": k, "angles": ang, "m": [[0] * 3] * 3, "orth": False, "det_ok": False, "raw": {"exception": str(exc)}})
    return out


def validate(ck, traces, rots, name, expect_reject=False):
    """BmTrace over a batch of molecule traces + rotation samples; returns ({tid: matched events}, [bad rot indices])"""
    wd = c.workdir("C06", name)
    doc = {"traces": [{"nodes": t["nodes"], "tnames": t["tnames"], "events": t["events"]} for t in traces],
           "rots": [{k: r[k] for k in ("lattice", "k", "m", "orth", "det_ok")} for r in rots]}
    f = wd / "traces.json"
    f.write_text(json.dumps(doc))
    res = c.tlc("BmTrace", "Bm_trace.cfg", workers=1, env={"TRACE_FILE": str(f)}, check=False)
    rej, rejrot = res.tagged("REJECTED"), res.tagged("REJECTEDROT")
    if res.rc != 0 and not rej and not rejrot:
        raise c.MachineryError("BmTrace failed: %s" % res.out[-2500:])
    rejected = {}
    for r in rej:
        rejected.update({int(t): int(m) for t, m in r})
    badrot = sorted({int(i) for r in rejrot for i in r})
    if not expect_reject:
        ck.add_tlc(res)
    return rejected, badrot


def binding_demo(ck, traces, rejected, rots, badrot):
    okt = [t for i, t in enumerate(traces, 1) if i not in rejected and any(e["op"] == "place" for e in t["events"])][:3]
    if not okt:
        okt = [SYNTHETIC]       # misbehaving code: no recorded trace is acceptable; demonstrate on a hand-written valid trace
    okr = [r for i, r in enumerate(rots, 1) if i not in badrot and r["lattice"]][:2] or [SYNTHETIC_ROT]
    strip = lambda ts: json.loads(json.dumps([{k: t[k] for k in ("nodes", "tnames", "events")} for t in ts]))
    r0, b0 = validate(ck, strip(okt), okr, "corrupt0", expect_reject=True)
    if r0 or b0:
        raise c.MachineryError("binding demonstration: uncorrupted records rejected (%s, %s)" % (r0, b0))
    demo = strip(okt)
    ev = next(e for e in demo[0]["events"] if e["op"] == "place")
    ev["changed"] = ev["changed"][:-1] if len(ev["changed"]) > 1 else ev["changed"] + [10 ** 6]
    rj, _ = validate(ck, demo, okr, "corrupt1", expect_reject=True)
    demo2 = strip(okt)
    ev2 = next(e for e in demo2[0]["events"] if e["op"] == "place")
    ev2["rigid"] = False
    rj2, _ = validate(ck, demo2, okr, "corrupt2", expect_reject=True)
    rots3 = json.loads(json.dumps(okr))
    rots3[0]["m"][0][0] = 1 - rots3[0]["m"][0][0]
    _, br3 = validate(ck, strip(okt), rots3, "corrupt3", expect_reject=True)
    if list(rj) != [1] or list(rj2) != [1] or br3 != [1]:
        raise c.MachineryError("binding demonstration failed: corrupted records accepted (%s, %s, %s)" % (rj, rj2, br3))
    ck.extra["binding_demo"] = ("a Place event with one atom removed from its changed set, a Place event with rigid=false and a lattice rotation sample "
                                "with one altered matrix entry are each rejected by BmTrace")


SYNTHETIC = {"nodes": [{"resid": 1, "bm": True, "key": "k", "atoms": [0, 1], "names": ["A", "B"]}], "tnames": {"k": ["A", "B"]},
             "events": [{"op": "place", "node": 1, "built": [], "key": "k", "changed": [0, 1], "centred": True, "rigid": True, "scale_ok": True, "proper": True},
                        {"op": "end", "changed": [0, 1]}]}
SYNTHETIC_ROT = {"lattice": True, "k": [1, 0, 0], "m": [[1, 0, 0], [0, 0, -1], [0, 1, 0]], "orth": True, "det_ok": True}


# ------------------------------------------------------------------------------------------------ entry points

def run(tier):
    ck = c.Check("C06", tier)
    ck.rule = ("S->I: every complete behaviour of Backmap.tla on molecules of one residue (6 types x 64 angle triples x 3 factors), two residues "
               "(36 type pairs x 6x6 angle triples x 2 factors) and simulated three-residue molecules; a case is distinct by (types, angle triples, "
               "factor) and non-trivial when a residue with >= 2 atoms is turned by a non-identity rotation or scaled by a factor != 1. "
               "I->S: one trace per molecule of seeded random gen_coords runs (walk / -mc / -c -res), one Place event per backmapped residue")
    ck.assumptions = ["residues have pairwise distinct atom names (templates are keyed by atom name)",
                      "exact part: templates and centres on a 0.25 nm lattice, optimiser result scripted to multiples of pi/2 (interposed on scipy inside "
                      "polyply.src.backmap); TLC computes centre + p/q * R * template as integers over a common denominator, compared at 1e-9 nm",
                      "numeric part (arbitrary angles): Kabsch/Umeyama fit by harness/geom_monitor.py, tolerances 1e-6; booleans required by BmTrace.tla",
                      "handedness is decidable only for non-planar templates (>= 4 atoms in general position); planar ones pass by definition",
                      "a gen_coords run that exceeds its timeout gives no verdict"]
    sd = c.seed()
    quick = tier == "quick"
    tu.import_polyply_quietly()
    ck.stage("TLC: model, deviations, exports (concurrently)")
    nsim = 60 if quick else 1500
    jobs = [("BmRotLaws", "Backmap_small.cfg" if quick else "Backmap_full.cfg", {"workers": max(2, c.NPROC // 2), "timeout": 3000}),
            ("BmExport", "Bm_export1.cfg", {"workers": 1}),
            ("BmExport", "Bm_export2.cfg", {"workers": 2}),
            ("BmExport", "Bm_export3.cfg", {"workers": 1, "simulate": "num=%d" % nsim, "depth": 4, "tseed": sd + 11})]
    devs = [("Improper", "SameHanded", "a sign flipped in one rotation matrix (m30)"), ("PerAtom", "Scaled", "atoms rotated individually"),
            ("NoFudge", "Scaled", "backmapping factor dropped (m31)"), ("OtherTemplate", "TurnedScaled", "template of another residue"),
            ("CentreOther", "Centred", "centre taken from another node")]
    jobs += [("MC_Backmap", "Bm_dev_%s.cfg" % d, {"workers": 1, "check": False}) for d, _, _ in devs]
    res = c.tlc_many(jobs, workers_each=2)
    ck.model_must_hold(res[0], "Centred/TurnedScaled/Scaled/SameHanded/Congruent/VSKept/Untouched/Protocol/OwnOnly/RotationLaws")
    for (d, inv, what), r in zip(devs, res[4:]):
        ck.model_must_refute(r, inv, "deviation %s: %s" % (d, what))
    ck.extra["deviations_refuted"] = {d: inv for d, inv, _ in devs}

    ck.stage("S->I: replay exported behaviours on the real code")
    for r, label in zip(res[1:4], ("one-residue", "two-residue", "three-residue-sim")):
        if label == "three-residue-sim":
            ck.add_tlc(r)
        else:
            ck.model_must_hold(r, "export " + label)
        cases = r.cases()
        if label == "three-residue-sim":
            cases = list({json.dumps(x, sort_keys=True): x for x in cases}.values())
        if not cases:
            raise c.MachineryError("BmExport %s produced no cases" % label)
        if label == "one-residue":
            ck.sample({"S->I case": {k: cases[len(cases) // 2][k] for k in ("mol", "p", "q", "ks", "den", "pos")}})
        replay_cases(ck, cases, label)
    ck.nontrivial = {k for k in ck.nontrivial if _nontrivial(json.loads(k))}

    ck.stage("I->S: real gen_coords runs (real optimiser)")
    nruns = 36 if quick else 480
    kinds = ["walk", "meta", "partial"]
    wd = c.workdir("C06", "runs")
    items = [(sd * 1000 + i, kinds[i % 3], str(wd / ("r%d" % i))) for i in range(nruns)]
    results = tu.pmap_timeout(_gen_run, items, limit=60 if quick else 120)
    traces, owners, timeouts, nplace = [], [], 0, 0
    for item, (status, out, wall) in zip(items, results):
        if status != "ok":
            timeouts += 1
            continue
        if out["exception"]:
            ck.violation({"kind": "gen_coords raised", "seed": item[0], "run": item[1], "system": out["system"], "fudge": out["fudge"]},
                         what="gen_coords raised on an in-domain system (%s run, seed %d): %s" % (item[1], item[0], out["exception"]))
        for t in out["traces"]:
            traces.append(t)
            owners.append((item, out))
    ck.extra["gen_coords_runs"] = nruns
    ck.extra["gen_coords_timeouts_no_verdict"] = timeouts
    if timeouts > nruns // 2:
        raise c.MachineryError("%d of %d gen_coords runs timed out" % (timeouts, nruns))
    if not traces:
        raise c.MachineryError("no Backmap trace recorded")
    rots = rotation_samples(np.random.default_rng(sd + 5), 300 if quick else 6000)
    rejected, badrot = validate(ck, traces, rots, "traces")
    ck.traces += len(traces) - len(rejected)
    stats = {"place": 0, "skip": 0, "chiral": 0, "neigh": {}, "built_neigh": 0, "stage2": 0, "vs_predef": 0, "predef": 0}
    for t, (item_, out_) in zip(traces, owners):
        predef = {v[0] for v in out_.get("volumes", [])}
        for ev in t["events"]:
            if ev["op"] == "place" and ev["node"]:
                inf = t["info"][ev["node"] - 1]
                stats["predef"] += 1 if inf["resname"] in predef else 0
                stats["vs_predef"] += 1 if inf["resname"] in predef and inf["has_vs"] else 0
    for t in traces:
        for ev, raw in zip(t["events"], t["raw"]):
            if ev["op"] == "place":
                stats["place"] += 1
                stats["chiral"] += 1 if raw.get("rank") == 3 else 0
                deg = t["info"][ev["node"] - 1]["degree"] if ev["node"] else -1
                stats["neigh"][deg] = stats["neigh"].get(deg, 0) + 1
                stats["built_neigh"] += 1 if ev["built"] else 0
                ck.nontrivial.add("place %s %s" % (t["nodes"][ev["node"] - 1]["key"] if ev["node"] else "?", json.dumps(raw, sort_keys=True)))
        stats["skip"] += sum(1 for n in t["nodes"] if not n["bm"])
        stats["stage2"] += 1 if t.get("stage2") else 0
    ck.evaluations += stats["place"] + len(rots)
    ck.actions["Place(real optimiser)"] = stats["place"]
    ck.actions["Skip(real)"] = stats["skip"]
    ck.extra["trace_stats"] = {"place_events": stats["place"], "skipped_residues": stats["skip"], "chiral_templates_placed": stats["chiral"],
                               "bonded_neighbours_histogram": {str(k): v for k, v in sorted(stats["neigh"].items())},
                               "placements_with_built_neighbours": stats["built_neigh"],
                               "placements_of_residues_with_predefined_volume": stats["predef"],
                               "placements_of_virtual_site_residues_with_predefined_volume": stats["vs_predef"], "molecule_traces_from_-c_-res_runs": stats["stage2"],
                               "rotate_xyz_samples": len(rots)}
    vacuous = stats["place"] == 0 or stats["chiral"] == 0 or stats["skip"] == 0 or stats["built_neigh"] == 0 or stats["vs_predef"] == 0
    tsample = next((t for t in traces if len(t["events"]) > 2), traces[0])
    ck.sample({"I->S trace": {"nodes": tsample["nodes"], "events": tsample["events"][:3], "monitor raw": tsample["raw"][:2]}})
    for tid, matched in sorted(rejected.items()):
        t = traces[tid - 1]
        item, out = owners[tid - 1]
        nxt = t["events"][matched] if matched < len(t["events"]) else None
        ck.violation({"kind": "I->S trace", "seed": item[0], "run": item[1], "fudge": out["fudge"], "system": out["system"], "trace": {k: t[k] for k in ("nodes", "tnames", "events", "raw")},
                      "matched_events": matched},
                     what="Backmap trace rejected by BmTrace after %d matched events (seed %d, %s run, factor %s); next event %s monitor %s" % (
                         matched, item[0], item[1], out["fudge"], json.dumps(nxt)[:300], json.dumps(t["raw"][matched] if matched < len(t["raw"]) else {})[:300]))
    for i in badrot:
        r = rots[i - 1]
        ck.violation({"kind": "rotate_xyz", "sample": r}, what="rotate_xyz(I, %s) is not the proper rotation of the specification: %s" % (r["angles"], json.dumps(r["raw"])[:300]))

    if vacuous and not ck.violations:       # (misbehaving code can empty a class of events: then the violations speak)
        raise c.MachineryError("vacuous I->S drivers: %s" % stats)

    ck.stage("binding demonstration")
    try:
        binding_demo(ck, traces, rejected, rots, badrot)
    except c.MachineryError as exc:
        if not ck.violations:
            raise
        ck.note("binding demonstration not conclusive on code that already violates the property: %s" % str(exc)[:300])
    ck.exhaustive = True
    return ck.finish()


def _nontrivial(key):
    if isinstance(key, str):
        return True
    tys, ks, p, q = key
    return any(t != "T1" and (tuple(k) != (0, 0, 0) or p != q) for t, k in zip(tys, ks))


def replay(path):
    doc = json.loads(open(path).read())
    case = doc["case"]
    tu.import_polyply_quietly()
    ck = c.Check("C06", "quick")
    if case["kind"] == "S->I replay":
        verdict, detail = run_exact_case(case["case"], c.workdir("C06", "replay_one"))
        print("replayed: %s %s" % (verdict, detail))
        return 0 if verdict == "ok" else 1
    if case["kind"] == "I->S trace":
        rej, _ = validate(ck, [case["trace"]], [], "replay_one", expect_reject=True)
        print("stored trace: %s" % ("still rejected" if rej else "accepted now"))
        status, out, _ = tu.pmap_timeout(_gen_run, [(case["seed"], case["run"], str(c.workdir("C06", "replay_run")))], limit=120)[0]
        if status != "ok":
            print("re-run timed out: no verdict")
            return 1 if rej else 0
        rej2, _ = validate(ck, out["traces"], [], "replay_one2", expect_reject=True)
        print("re-run with the same seed: %d of %d molecule traces rejected%s" % (len(rej2), len(out["traces"]), "; exception " + out["exception"] if out["exception"] else ""))
        return 1 if (rej2 or out["exception"]) else 0
    if case["kind"] == "gen_coords raised":
        status, out, _ = tu.pmap_timeout(_gen_run, [(case["seed"], case["run"], str(c.workdir("C06", "replay_run")))], limit=120)[0]
        print("re-run: %s %s" % (status, out["exception"] if out else ""))
        return 1 if (status == "ok" and out["exception"]) else 0
    if case["kind"] == "rotate_xyz":
        r = rotation_samples(np.random.default_rng(0), 1)
        from polyply.src import linalg_functions as lf
        M = np.asarray(lf.rotate_xyz(np.eye(3), *case["sample"]["angles"]), float)
        v = gm.rotation_verdict(M, tol=1e-9)
        print("rotate_xyz:", v)
        return 0 if v["orth"] and v["det_ok"] else 1
    return 2
