"""X06 (extension) - the repository's own test suite as a source of traces.

The tests under polyply/tests drive BuildSystem, RandomWalk, gen_coords and NonBondEngine with hand-written inputs and assert a few
facts about the result.  Here the same executions are *observed* (harness/pytest_trace_plugin.py, loaded into pytest with -p, no edit in
the repository) and every recorded behaviour is validated at every step against the specifications instead of the tests' own assertions:

  WALK   every complete BuildSystem.run_system / gen_coords execution inside a test = one trace for spec/WalkTrace.tla (all Walk
         invariants on every prefix) with the C05 numeric monitor attached (step length, in box, >= 0.1 nm, force limit);
  ENGINE every NonBondEngine object a test creates = one trace (constructor, add / remove / concatenate, queries) for
         spec/NBTraceAbs.tla: float points are opaque tokens, the four views are validated action by action and invariant Views on every
         state; the metric part of queries is judged by a brute-force monitor whose verdict q_ok must be TRUE on every query event.

A failing or erroring test is not a violation; a rejected trace or a FALSE monitor verdict is.  Unit tests that drive pieces of the
random walk directly (update_positions, _rewind, run_molecule, ...) are not complete behaviours of Walk: counted, not validated there
(their engine objects are).
"""
import glob
import json
import os
import re
import shutil
import subprocess
import sys
import tempfile
import time
from concurrent.futures import ThreadPoolExecutor
from pathlib import Path

from .. import common as c

PROP = "X06"
FOCUS = ["test_build_system.py", "test_random_walk.py", "test_gen_coords_logic.py", "test_nb_engine.py", "test_persistence.py", "test_gen_coords.py"]
# tests excluded BY NAME (node id -> one-line reason); none is needed on the current tree
EXCLUDE = {}
WALK_EVENTS = ("begin", "root", "rootfail", "ok", "fail", "rewind", "end", "cleanup", "handled", "finish")
ENGINE_KEEP = ("op", "n", "p", "start", "nodes", "post", "q_ok")


def repo_root():
    r = os.environ.get("VERIF_REPO")
    if r:
        return Path(r)
    import polyply
    return Path(polyply.__file__).resolve().parents[1]


# ----------------------------------------------------------------------------- running pytest with the plugin

def run_pytest(repo, targets, scratch, tag, seed, timeout):
    """one pytest subprocess over `targets` (paths or node ids relative to the repository); returns (rc, records, tail of output)"""
    out = Path(scratch) / ("out_" + tag)
    out.mkdir(parents=True, exist_ok=True)
    env = dict(os.environ)
    env.update({"TQDM_DISABLE": "1", "OMP_NUM_THREADS": "1", "OPENBLAS_NUM_THREADS": "1", "MKL_NUM_THREADS": "1", "PYTHONDONTWRITEBYTECODE": "1",
                "PYTHONHASHSEED": "0", "X06_OUT": str(out), "VERIF_SEED": str(seed),
                "PYTHONPATH": "%s:%s" % (c.VERIF, repo)})
    cmd = [sys.executable, "-m", "pytest", "-q", "-p", "no:cacheprovider", "-p", "harness.pytest_trace_plugin", "--continue-on-collection-errors",
           "--basetemp", str(Path(scratch) / ("bt_" + tag)), "-o", "addopts="]
    try:
        import pytest_timeout  # noqa: F401
        cmd.append("--timeout=%s" % os.environ.get("X06_TEST_TIMEOUT", "120"))
    except ImportError:
        pass
    cmd += [str(Path(repo) / t) for t in targets]
    cwd = Path(scratch) / ("cwd_" + tag)
    cwd.mkdir(parents=True, exist_ok=True)
    t0 = time.time()
    try:
        p = subprocess.run(cmd, cwd=cwd, env=env, capture_output=True, text=True, timeout=timeout)
    except subprocess.TimeoutExpired:
        raise c.MachineryError("pytest (%s) did not finish within %d s" % (tag, timeout))
    recs = []
    for f in sorted(glob.glob(str(out / "records-*.ndjson"))):
        with open(f) as fh:
            for line in fh:
                if line.strip():
                    r = json.loads(line)
                    r["pass"] = tag
                    recs.append(r)
    tail = "\n".join((p.stdout + p.stderr).splitlines()[-15:])
    if p.returncode not in (0, 1) and not any(r["kind"] == "test" for r in recs):
        raise c.MachineryError("pytest (%s) failed with exit code %d:\n%s" % (tag, p.returncode, tail))
    return p.returncode, recs, tail, time.time() - t0


# ----------------------------------------------------------------------------- validation

def _rejected(res):
    rej = {}
    for r in res.tagged("REJECTED"):
        rej.update({int(t): int(m) for t, m in r})
    return rej


def _tid_of_counterexample(res):
    m = None
    for m in re.finditer(r"/\\ tid = (\d+)", res.out):
        pass
    return int(m.group(1)) if m else None


def _tlc_batch(module, cfg, name, doc_of, items, label):
    """validate `items` in one TLC run; a trace that drives the specification into an invariant violation is taken out and the rest is
    validated again (so that one bad trace does not hide the others).  Returns (rejected: index -> matched, invariant: index -> names, runs)."""
    rejected, invbad, runs = {}, {}, []
    idx = list(range(len(items)))
    for _ in range(8):
        if not idx:
            break
        wd = c.workdir(PROP, name)
        f = wd / "traces.json"
        f.write_text(json.dumps(doc_of([items[i] for i in idx])))
        res = c.tlc(module, cfg, workers=1, env={"TRACE_FILE": str(f)}, check=False, timeout=3000)
        runs.append(res)
        rej = _rejected(res)
        if res.inv_violated:
            tid = _tid_of_counterexample(res)
            if tid is None or not 1 <= tid <= len(idx):
                raise c.MachineryError("%s: invariant %s violated but the trace cannot be identified:\n%s" % (label, res.inv_violated, c.counterexample(res)[:1500]))
            invbad[idx[tid - 1]] = (res.inv_violated, c.counterexample(res)[-2500:])
            del idx[tid - 1]
            continue
        if res.rc != 0 and not rej:
            raise c.MachineryError("%s failed: %s" % (label, res.out[-2500:]))
        for t, m in rej.items():
            rejected[idx[t - 1]] = m
        break
    else:
        raise c.MachineryError("%s: more than 8 traces violate an invariant" % label)
    return rejected, invbad, runs


def walk_doc(items):
    return [{"inst": r["inst"], "evs": r["evs"]} for r in items]


def engine_doc(items):
    return {"maxnodes": max([r["nn"] for r in items] + [1]), "ntokens": max([r["ntok"] for r in items] + [1]),
            "traces": [{"nn": r["nn"], "init": r["init"], "evs": [{k: e[k] for k in ENGINE_KEEP if k in e} for e in r["evs"]]} for r in items]}


def validate_walks(ck, walks, name="walk", report=True):
    rej, inv, runs = _tlc_batch("WalkTrace", "Walk_trace.cfg", name, walk_doc, walks, "WalkTrace")
    if not report:
        return rej, inv
    for res in runs:
        ck.add_tlc(res)
    ck.traces += len(walks) - len(rej) - len(inv)
    for i, (names, cx) in sorted(inv.items()):
        r = walks[i]
        ck.violation({"kind": "walk trace", "nodeid": r["nodeid"], "k": r["k"], "inst": r["inst"], "evs": r["evs"], "invariant": names, "counterexample": cx},
                     what="test %s: build trace (run_system call %d) drives Walk into a state violating %s" % (r["nodeid"], r["k"], names))
    for i, matched in sorted(rej.items()):
        r = walks[i]
        nxt = r["evs"][matched] if matched < len(r["evs"]) else None
        why = ""
        if nxt and nxt.get("obs") and not all(nxt["obs"].values()):
            why = " - numeric monitor verdict FALSE: %s %s" % ({k: v for k, v in nxt["obs"].items() if not v}, json.dumps(nxt.get("raw"))[:300])
        ck.violation({"kind": "walk trace", "nodeid": r["nodeid"], "k": r["k"], "inst": r["inst"], "evs": r["evs"][:matched + 1], "matched_events": matched},
                     what="test %s: build trace (run_system call %d) rejected by Walk after %d matched events; next event %s%s" % (
                         r["nodeid"], r["k"], matched, json.dumps({k: v for k, v in (nxt or {}).items() if k != "raw"})[:400], why))
    return rej, inv


def validate_engines(ck, engines, name="engine", report=True):
    rej, inv, runs = _tlc_batch("NBTraceAbs", "NB_trace_abs.cfg", name, engine_doc, engines, "NBTraceAbs")
    if not report:
        return rej, inv
    for res in runs:
        ck.add_tlc(res)
    ck.traces += len(engines) - len(rej) - len(inv)
    for i, (names, cx) in sorted(inv.items()):
        r = engines[i]
        ck.violation({"kind": "engine trace", "nodeid": r["nodeid"], "k": r["k"], "nn": r["nn"], "ntok": r["ntok"], "init": r["init"], "evs": r["evs"],
                      "invariant": names, "counterexample": cx},
                     what="test %s: trace of engine object %d drives NBEngine into a state violating %s" % (r["nodeid"], r["k"], names))
    for i, r in enumerate(engines):
        if r.get("false_after_truncation") and i not in rej and i not in inv:
            ck.violation({"kind": "engine trace", "nodeid": r["nodeid"], "k": r["k"], "nn": r["nn"], "ntok": r["ntok"], "init": r["init"], "evs": [],
                          "after_the_recorded_prefix": r["false_after_truncation"]},
                         what="test %s: engine object %d - numeric monitor verdict FALSE after the %d recorded events: %s" % (
                             r["nodeid"], r["k"], len(r["evs"]), json.dumps(r["false_after_truncation"][0])[:400]))
    for i, matched in sorted(rej.items()):
        r = engines[i]
        nxt = r["evs"][matched] if matched < len(r["evs"]) else None
        why = ""
        if nxt and nxt.get("q_ok") is False:
            why = " - numeric monitor verdict FALSE: %s" % json.dumps(nxt.get("raw"))[:400]
        elif nxt and nxt.get("op") == "raise":
            why = " - the engine raised: %s" % nxt.get("exc")
        short = {k: v for k, v in (nxt or {}).items() if k not in ("post", "raw")}
        ck.violation({"kind": "engine trace", "nodeid": r["nodeid"], "k": r["k"], "nn": r["nn"], "ntok": r["ntok"], "init": r["init"],
                      "evs": r["evs"][:matched + 1], "matched_events": matched},
                     what="test %s: trace of engine object %d rejected by NBEngine after %d matched events; next event %s%s" % (
                         r["nodeid"], r["k"], matched, json.dumps(short)[:300], why))
    return rej, inv


# ----------------------------------------------------------------------------- the check

def _split(recs):
    tests = [r for r in recs if r["kind"] == "test"]
    walks = [r for r in recs if r["kind"] == "walk" and r["nodeid"] not in EXCLUDE]
    engines = [r for r in recs if r["kind"] == "engine" and r["nodeid"] not in EXCLUDE]
    return tests, walks, engines


def run(tier):
    ck = c.Check(PROP, tier, level="model_checking")
    sd = c.seed()
    repo = repo_root()
    tests_dir = Path("polyply") / "tests"
    focus = [str(tests_dir / f) for f in FOCUS if (repo / tests_dir / f).exists()]
    ck.rule = ("I->S only: every test of the repository's own suite (quick: %s; thorough: the whole suite, plus the focus files again under further random "
               "seeds) is run unmodified under pytest with a recording plugin; every complete BuildSystem.run_system / gen_coords execution is one trace for "
               "WalkTrace (C05 monitor attached), every NonBondEngine object one trace for NBTraceAbs (opaque point tokens, Views on every state, metric "
               "part by a brute-force monitor)" % ", ".join(FOCUS))
    ck.assumptions = ["a failing or erroring test is not a violation; a rejected trace or a FALSE monitor verdict is",
                      "the random draws of the tests are seeded per test from VERIF_SEED (the tests themselves do not seed them)",
                      "engine traces: float points are opaque tokens, so the specification decides identity and bookkeeping only; distances, the "
                      "0.1 nm guard and the 12-6 force are recomputed by brute force (minimum image; 1e-9 nm band around a threshold leaves both "
                      "answers open; force rtol 1e-6)",
                      "read-only events beyond %s per engine object are not kept unless their verdict is FALSE" % os.environ.get("X06_MAX_READONLY", "1500")]
    if not focus:
        raise c.MachineryError("no test files found under %s" % (repo / tests_dir))
    scratch = tempfile.mkdtemp(prefix="x06_", dir="/var/tmp")
    try:
        ck.stage("pytest with the recording plugin on %s" % repo)
        jobs = [("main", focus if tier == "quick" else [str(tests_dir)], sd)]
        if tier == "thorough":
            jobs += [("seed%d" % k, focus, sd * 100 + 17 + k) for k in range(1, 9)]
        with ThreadPoolExecutor(max(1, min(len(jobs), c.NPROC, 4))) as ex:
            outs = list(ex.map(lambda j: run_pytest(repo, j[1], scratch, j[0], j[2], 1200 if tier == "quick" else 3000), jobs))
        recs = []
        ck.extra["pytest_runs"] = []
        for (tag, targets, s), (rc, rr, tail, wall) in zip(jobs, outs):
            recs += rr
            last = tail.splitlines()[-1] if tail else ""
            ck.extra["pytest_runs"].append({"pass": tag, "seed": s, "exit_code": rc, "summary": last.strip(), "wall_s": round(wall, 1)})
        tests, walks, engines = _split(recs)
        if not tests:
            raise c.MachineryError("pytest produced no records:\n%s" % outs[0][2])
        _evidence(ck, tests, walks, engines)
        ck.stage("WalkTrace: %d complete build behaviours" % len(walks))
        wbad, ebad = set(), set()
        if walks:
            rej, inv = validate_walks(ck, walks)
            wbad = set(rej) | set(inv)
        ck.stage("NBTraceAbs: %d engine objects" % len(engines))
        if engines:
            rej, inv = validate_engines(ck, engines)
            ebad = set(rej) | set(inv)
        ck.stage("binding demonstration")
        # the demonstration corrupts traces the specification accepted
        _binding_demo(ck, [w_ for i, w_ in enumerate(walks) if i not in wbad], [e for i, e in enumerate(engines) if i not in ebad])
        _vacuity(ck, tests, walks, engines, focus)
    finally:
        shutil.rmtree(scratch, ignore_errors=True)
    return ck.finish()


def _evidence(ck, tests, walks, engines):
    main = [t for t in tests if t["pass"] == "main"]
    failed = [t["nodeid"] for t in main if any(v != "passed" for v in t["outcome"].values())]
    ck.extra["tests_run"] = len(main)
    ck.extra["tests_run_all_passes"] = len(tests)
    ck.extra["tests_failed_or_errored"] = len(failed)
    ck.extra["tests_failed_sample"] = failed[:8]
    ck.extra["complete_walk_behaviours"] = len(walks)
    ck.extra["complete_walk_behaviours_with_placements"] = sum(1 for w_ in walks if any(e["ev"] in ("ok", "root") for e in w_["evs"]))
    ck.extra["run_system_raised"] = sum(t["counts"]["run_system_raised"] for t in tests)
    ck.extra["engine_objects"] = len(engines)
    ck.extra["engine_objects_with_mutations"] = sum(1 for e in engines if any(ev["op"] in ("add", "remove", "concat") for ev in e["evs"]))
    ck.extra["walk_events"] = sum(len(w_["evs"]) for w_ in walks)
    ck.extra["engine_events"] = sum(len(e["evs"]) for e in engines)
    ck.extra["engine_readonly_events_not_kept"] = sum(e.get("dropped_readonly", 0) for e in engines)
    ck.extra["engine_traces_cut_to_a_prefix"] = sum(1 for e in engines if e.get("truncated"))
    ck.extra["builds_too_long_to_keep"] = sum(t["counts"].get("run_system_too_long", 0) for t in tests)
    ck.extra["tests_cut_short_after_a_false_verdict"] = sum(t["counts"].get("cut_short_after_false_verdict", 0) for t in tests)
    ck.extra["monitored_placements"] = sum(1 for w_ in walks for e in w_["evs"] if e.get("obs") and e["ev"] in ("ok", "root"))
    ck.extra["monitored_queries"] = sum(1 for e in engines for ev in e["evs"] if ev["op"] in ("query", "dist"))
    ck.extra["unregistered_engine_calls"] = sum(t["counts"].get("unregistered_engine_calls", 0) for t in tests)
    for w_ in walks:
        for e in w_["evs"]:
            ck.actions["walk:" + e["ev"]] = ck.actions.get("walk:" + e["ev"], 0) + 1
        ck.count(json.dumps([w_["inst"], [e["ev"] for e in w_["evs"]]], sort_keys=True), len(w_["evs"]))
    for en in engines:
        for e in en["evs"]:
            ck.actions["engine:" + e["op"]] = ck.actions.get("engine:" + e["op"], 0) + 1
        ck.count(json.dumps([en["nn"], en["init"], [[e["op"], e.get("n"), e.get("p"), e.get("nodes")] for e in en["evs"]]]), len(en["evs"]))
    # tests that touch the walk / the engine without any complete behaviour
    pieces = {}
    nobeh = []
    have = {w_["nodeid"] for w_ in walks}
    for t in main:
        if t["pieces"] and t["nodeid"] not in have:
            nobeh.append(t["nodeid"])
            for k, v in t["pieces"].items():
                pieces[k] = pieces.get(k, 0) + v
    ck.extra["tests_driving_pieces_of_the_walk_only"] = {"count": len(nobeh), "calls": pieces, "sample": nobeh[:6]}
    touched = have | {e["nodeid"] for e in engines}
    ck.extra["tests_without_any_recorded_object"] = sum(1 for t in main if t["nodeid"] not in touched)
    ck.extra["excluded_tests"] = EXCLUDE
    if walks:
        w_ = max(walks, key=lambda x: len(x["evs"]))
        ck.sample({"walk trace of": w_["nodeid"], "events": [e["ev"] for e in w_["evs"]][:40],
                   "a monitored placement": next(({k: e[k] for k in ("ev", "mol", "obs", "raw") if k in e} for e in w_["evs"] if e.get("obs") and e["ev"] == "ok"), None)})
    if engines:
        en = max(engines, key=lambda x: sum(1 for e in x["evs"] if e["op"] in ("add", "remove", "concat")))
        ck.sample({"engine trace of": en["nodeid"], "nodes": en["nn"], "ops": [e["op"] for e in en["evs"]][:40],
                   "a query event": next(({k: v for k, v in e.items() if k != "post"} for e in en["evs"] if e["op"] == "query"), None)})


def _binding_demo(ck, walks, engines):
    demo = {}
    wc = [w_ for w_ in walks if any(e["ev"] in ("ok", "root") for e in w_["evs"])]
    if wc:
        a, b, good = (json.loads(json.dumps(wc[0])) for _ in range(3))
        k = next(i for i, e in enumerate(a["evs"]) if e["ev"] in ("ok", "root"))
        a["evs"][k]["pos"][a["evs"][k]["mol"] - 1] = []                       # corrupted positioned set
        k2 = next(i for i, e in enumerate(b["evs"]) if e["ev"] in ("ok", "root") and e.get("obs"))
        b["evs"][k2]["obs"][sorted(b["evs"][k2]["obs"])[0]] = False           # monitor verdict flipped
        rej, inv = validate_walks(ck, [a, b, good], "demo_walk", report=False)
        if set(rej) != {0, 1} or inv:
            raise c.MachineryError("binding demonstration failed (walk): corrupted traces rejected = %s, expected the first two only" % sorted(rej))
        demo["walk"] = "positioned set of one event emptied -> rejected after %d matched events; one monitor boolean flipped -> rejected after %d; the intact trace accepted" % (rej[0], rej[1])
    ec = [e for e in engines if any(ev["op"] == "add" for ev in e["evs"])]
    eq = [e for e in engines if any(ev["op"] in ("query", "dist") for ev in e["evs"])]
    if ec and eq:
        a, good = json.loads(json.dumps(ec[0])), json.loads(json.dumps(ec[0]))
        b = json.loads(json.dumps(eq[0]))
        k = next(i for i, e in enumerate(a["evs"]) if e["op"] == "add")
        a["evs"][k]["post"]["defined"][-1] = a["evs"][k]["post"]["defined"][-1][:-1]     # index list one entry short
        k2 = next(i for i, e in enumerate(b["evs"]) if e["op"] in ("query", "dist"))
        b["evs"][k2]["q_ok"] = False
        d = json.loads(json.dumps(ec[0]))
        d["evs"][k]["post"]["treeof"][-1][1] += 1                                        # node -> tree map names another tree
        rej, inv = validate_engines(ck, [a, b, d, good], "demo_engine", report=False)
        if set(rej) != {0, 1, 2} or inv:
            raise c.MachineryError("binding demonstration failed (engine): corrupted traces rejected = %s, expected the first three only" % sorted(rej))
        demo["engine"] = ("index list of one add event shortened -> rejected after %d matched events; q_ok of one query set FALSE -> rejected after %d; "
                          "one entry of the node->tree map changed -> rejected after %d; the intact trace accepted" % (rej[0], rej[1], rej[2]))
    ck.extra["binding_demo"] = demo
    ck.require("walk" in demo and "engine" in demo or ck.extra.get("tests_failed_or_errored", 0) > 0,
               "no accepted trace was available for the binding demonstration")


def _vacuity(ck, tests, walks, engines, focus):
    """minimum yield, from the numbers measured on the unchanged tree (13 behaviours / 59 engine objects / ~525 engine events in the main pass).
    When tests of the traced files fail (a changed tree) a lower yield is the code's doing, not the machinery's: noted, not an error."""
    main = [t for t in tests if t["pass"] == "main"]
    focus_names = tuple(Path(f).name for f in focus)
    failed_focus = [t["nodeid"] for t in main if any(v != "passed" for v in t["outcome"].values()) and t["nodeid"].split("::")[0].endswith(focus_names)]
    mw = [w_ for w_ in walks if w_["pass"] == "main"]
    me = [e for e in engines if e["pass"] == "main"]
    a = {}
    for w_ in mw:
        for e in w_["evs"]:
            a["walk:" + e["ev"]] = a.get("walk:" + e["ev"], 0) + 1
    for en in me:
        for e in en["evs"]:
            a["engine:" + e["op"]] = a.get("engine:" + e["op"], 0) + 1
    need = [(len(main) >= 90, "fewer than 90 tests ran (%d)" % len(main)),
            (len(mw) >= 10, "fewer than 10 complete build behaviours (%d)" % len(mw)),
            (sum(1 for w_ in mw if any(e["ev"] == "ok" for e in w_["evs"])) >= 6, "fewer than 6 build behaviours with placements"),
            (a.get("walk:ok", 0) >= 25 and a.get("walk:root", 0) >= 8 and a.get("walk:finish", 0) >= 10, "too few walk events %s" % a),
            (len(me) >= 45, "fewer than 45 engine objects (%d)" % len(me)),
            (a.get("engine:add", 0) >= 120 and a.get("engine:remove", 0) >= 2 and a.get("engine:concat", 0) >= 1, "too few mutating engine events %s" % a),
            (a.get("engine:query", 0) >= 100 and a.get("engine:point", 0) >= 60 and a.get("engine:dist", 0) >= 5, "too few read-only engine events %s" % a)]
    for ok, msg in need:
        if ok:
            continue
        if failed_focus:
            ck.note("yield below the usual minimum (%s) while %d tests of the traced files fail, e.g. %s" % (msg, len(failed_focus), failed_focus[:2]))
        else:
            ck.require(False, "vacuous: " + msg)


# ----------------------------------------------------------------------------- replay

def replay(path):
    doc = json.loads(open(path).read())
    case = doc["case"]
    ck = c.Check(PROP, "quick", level="model_checking")
    repo = repo_root()
    scratch = tempfile.mkdtemp(prefix="x06_", dir="/var/tmp")
    try:
        print("stored trace:")
        stored = dict(case)
        stored.setdefault("evs", [])
        if case["kind"] == "walk trace":
            rej, inv = validate_walks(ck, [stored], "replay_stored", report=False)
        else:
            rej, inv = validate_engines(ck, [stored], "replay_stored", report=False)
        n = len(stored["evs"])
        if inv:
            print("  violates %s" % (inv[0][0],))
        elif rej and rej[0] < n:
            print("  rejected after %d matched events (of %d stored)" % (rej[0], n))
        else:
            print("  every stored event is matched (the stored prefix alone is no counterexample)")
        print("re-running %s on %s" % (case["nodeid"], repo))
        rc, recs, tail, _ = run_pytest(repo, [case["nodeid"]], scratch, "replay", c.seed(), 900)
        tests, walks, engines = _split(recs)
        if walks:
            validate_walks(ck, walks, "replay_walk")
        if engines:
            validate_engines(ck, engines, "replay_engine")
        print("replayed: %d walk / %d engine traces of the test, %s" % (len(walks), len(engines), "violation reproduced" if ck.violations else "all accepted now"))
    finally:
        shutil.rmtree(scratch, ignore_errors=True)
    return 1 if ck.violations else 0
