"""X05 - extension beyond the listed properties: residue / terminal modifications of gen_params (`-mods`, automatic termini).

spec/Mods.tla (P-layer: PFinal = fold of the declarative per-request transformer, laws Conform / Frame / ResolveLaw / ReplaceLaw /
ErrorLaw / TerminiLaw; I-layer: Load, Begin, Select, Visit, Inter, Finish, Fail), ModsMC (instance), ModsExport, ModsTrace.

S->I : every input of the instance (residue sequences over ALA / GLY / PEO x four libraries x every request list of length <= 2) is
       rendered as real .ff files, the real MetaMolecule is built (random node keys, insertion order, linear or cyclic residue graph),
       ApplyModifications runs under wrappers that give one event per I-layer action (constructor, amino-acid gate, one visit per atom
       with its assignments, one add per interaction, error / finish); events, the molecule in memory and the parsed requests are
       compared with the exported behaviour.  A subset runs end to end through gen_params(mods=...) and reads the written .itp back.
I->S : random force fields / modifications / requests beyond the bound (<= 8 residues, 4-atom blocks, 1-4 atom interactions, renames,
       near-miss residue names, default termini) and the shipped martini3 library (real amino-acid blocks, the seven shipped
       modifications), events recorded from the real code and validated in batch by ModsTrace.
Open findings are deviation flags of the I-layer that follow the ledger (known_findings.d): a behaviour on which a flag fired and that
the real code reproduces is reported as KNOWN-FINDING; anything else that differs is a VIOLATION.
"""
import json
import os
import random
import shutil
from pathlib import Path

from .. import common as c
from .. import mods_util as mu

PROP = "X05"
SIGS = {"trunc2": "mod-interaction-truncated", "terKeyError": "default-termini-keyerror", "edgeFirstChar": "modification-edges-first-char"}
ENVN = {"trunc2": "X05_TRUNC2", "terKeyError": "X05_TERKEYERROR", "edgeFirstChar": "X05_EDGEFIRSTCHAR"}
WHAT = {"trunc2": "an interaction of a modification with other than two atoms is added with its first two atoms only (one atom: IndexError)",
        "terKeyError": "no -mods and a library with modifications but without N-ter / C-ter: KeyError 'N-ter'",
        "edgeFirstChar": "a modification with an [ edges ] section cannot be loaded (only the first character of the atom name is looked up)"}
ERRTYPE = {"nomod": "KeyError", "noresid": "KeyError", "noanchor": "KeyError", "arity": "IndexError", "load": "OSError"}
NP = min(c.NPROC, 5)

DEVS = [("Mod_dev_trunc2.cfg", "ResolveLaw", "open finding: interactions truncated to two atoms"),
        ("Mod_dev_trunc2_err.cfg", "ErrorLaw", "open finding: one-atom interaction -> IndexError"),
        ("Mod_dev_terkeyerror.cfg", "TerminiLaw", "open finding: automatic termini not defined by the library"),
        ("Mod_dev_edgefirstchar.cfg", "Conform", "open finding: modification with [ edges ] cannot be loaded"),
        ("Mod_dev_anyres.cfg", "ResolveLaw", "first atom of that name in the whole molecule"),
        ("Mod_dev_residignored.cfg", "Conform", "target = first residue with the requested name"),
        ("Mod_dev_replaceall.cfg", "ReplaceLaw", "replace applied to every atom of the residue"),
        ("Mod_dev_dedup.cfg", "Conform", "an interaction already present is not appended"),
        ("Mod_dev_lastwins.cfg", "Conform", "only the last request for a residue applied"),
        ("Mod_dev_nogate.cfg", "Frame", "non-amino-acid residues modified"),
        ("Mod_dev_errwrites.cfg", "ErrorLaw", "output written although a request failed"),
        ("Mod_dev_skipunknown.cfg", "Conform", "unknown modification skipped silently"),
        ("Mod_dev_terbyinsertion.cfg", "TerminiLaw", "termini = first / last inserted residue node"),
        ("Mod_dev_resnamechecked.cfg", "Conform", "request with another residue name skipped"),
        ("Mod_dev_firstonly.cfg", "Conform", "only the first request applied")]
EXPS = [("Mod_exp_resname.cfg", "ExpResnameMatters"), ("Mod_exp_idempotent.cfg", "ExpIdempotent"), ("Mod_exp_atomic.cfg", "ExpAtomicInMemory"),
        ("Mod_exp_addsatoms.cfg", "ExpAddsAtoms"), ("Mod_exp_everyrequest.cfg", "ExpEveryRequestApplied"),
        ("Mod_exp_terminisegment.cfg", "ExpTerminiPerSegment"), ("Mod_exp_unknownmod.cfg", "ExpUnknownModIsError"),
        ("Mod_reach_seesearlier.cfg", "Reach_SeesEarlier"), ("Mod_reach_silentanchor.cfg", "Reach_SilentAnchor")]


def ledger_flags():
    known = c.known_sigs(PROP)
    return {f: (SIGS[f] in known) for f in SIGS}


def flag_env(flags):
    return {ENVN[f]: ("1" if v else "0") for f, v in flags.items()}


# =========================================================================== S->I

def _paths_for(wd, libs):
    return {lid: [str(p) for p in mu.write_ff(wd, mu.MC_BLOCKS, lib, tag=lid)] for lid, lib in libs.items()}


def compare_case(case, res, lay):
    """list of differences between the exported behaviour and the recorded run (empty = conforms)"""
    inp, hist, fin = case["inp"], case["hist"], case["fin"]
    diffs = []
    if hist and hist[0]["op"] == "error" and hist[0]["err"] == "load":
        if "load_err" not in res:
            diffs.append("the force field loads, the specification (as is) expects the modification file to be refused")
        elif res["load_err"]["type"] != ERRTYPE["load"]:
            diffs.append("loading raised %s, expected %s" % (res["load_err"]["type"], ERRTYPE["load"]))
        return diffs
    if "load_err" in res:
        return ["loading the force field raised %s: %s" % (res["load_err"]["type"], res["load_err"]["msg"])]
    if "setup_err" in res:
        return ["%s raised %s: %s" % (res["setup_err"].get("stage"), res["setup_err"]["type"], res["setup_err"]["msg"])]
    if res["pre"]["atoms"] != inp["atoms"]:
        diffs.append("molecule before the modifications differs from the instance: %s" % json.dumps(res["pre"]["atoms"])[:200])
    if lay["shape"] == "linear" and mu.bag(res["pre"]["inters"]) != mu.bag(inp["base"]):
        diffs.append("interactions before the modifications differ from the instance")
    if res["reqs"] != fin["reqs"]:
        diffs.append("requests after the constructor are %s, expected %s" % (json.dumps(res["reqs"]), json.dumps(fin["reqs"])))
    exp = [e for e in hist if e["op"] not in ("load", "next")]
    got = mu.canon_events(res["events"])
    if got != exp:
        n = 0
        while n < min(len(got), len(exp)) and got[n] == exp[n]:
            n += 1
        diffs.append("event %d is %s, expected %s" % (n + 1, json.dumps(got[n]) if n < len(got) else None, json.dumps(exp[n]) if n < len(exp) else None))
    if res["post"]["atoms"] != fin["atoms"]:
        k = next((i for i, (x, y) in enumerate(zip(res["post"]["atoms"], fin["atoms"])) if x != y), -1)
        diffs.append("atoms after the run differ (atom %d is %s, expected %s)" % (k + 1, res["post"]["atoms"][k] if k >= 0 else len(res["post"]["atoms"]),
                                                                                   fin["atoms"][k] if k >= 0 else len(fin["atoms"])))
    added, lost = mu.added_inters(res["pre"]["inters"], res["post"]["inters"])
    if lost:
        diffs.append("interactions present before the modifications are gone: %s" % json.dumps(lost)[:200])
    if mu.skey(added) != mu.skey(fin["added"]):
        diffs.append("added interactions are %s, expected %s" % (json.dumps(added)[:200], json.dumps([mu.strip_x(x) for x in fin["added"]])[:200]))
    if fin["pc"] == "error" and "exc" in res and res["exc"]["type"] != ERRTYPE.get(fin["err"]):
        diffs.append("raised %s, expected %s" % (res["exc"]["type"], ERRTYPE.get(fin["err"])))
    return diffs


def compare_e2e(case, out, lay, sentinel):
    inp, fin = case["inp"], case["fin"]
    diffs = []
    if fin["pc"] == "error":
        if "exc" not in out:
            diffs.append("gen_params returned normally, expected %s (%s)" % (ERRTYPE.get(fin["err"]), fin["err"]))
        elif out["exc"]["type"] != ERRTYPE.get(fin["err"]):
            diffs.append("gen_params raised %s (%s), expected %s" % (out["exc"]["type"], out["exc"]["msg"][:80], ERRTYPE.get(fin["err"])))
        if sentinel is None and out["files"]:
            diffs.append("a failed run left files: %s" % out["files"])
        if sentinel is not None and (not out.get("untouched") or out["files"] != ["out.itp"]):
            diffs.append("a failed run touched the existing output (%s)" % out["files"])
        return diffs
    if "exc" in out:
        return ["gen_params raised %s: %s" % (out["exc"]["type"], out["exc"]["msg"][:120])]
    if "itp" not in out:
        return ["no readable output file (%s)" % out.get("itp_err", out["files"])]
    ea = mu.expected_itp_atoms(inp, fin["atoms"])
    oa = mu.itp_atoms(out["itp"])
    if ea != oa:
        k = next((i for i, (x, y) in enumerate(zip(oa, ea)) if x != y), -1)
        diffs.append("written atoms differ: atom %d is %s, expected %s" % (k + 1, oa[k] if k >= 0 else len(oa), ea[k] if k >= 0 else len(ea)))
    eb = mu.bag(list(inp["base"]) + list(fin["added"]))
    ob = mu.bag(out["itp"]["inters"])
    if eb != ob:
        miss = [x for x in eb if eb.count(x) > ob.count(x)]
        extra = [x for x in ob if ob.count(x) > eb.count(x)]
        diffs.append("written interactions differ: missing %s, unexpected %s" % (miss[:3], extra[:3]))
    return diffs


def _replay_chunk(arg):
    wd, libs, items, sd, e2e = arg
    rng = random.Random(sd)
    paths = _paths_for(Path(wd) / "ff", libs)
    out = []
    for ci, case in items:
        inp = case["inp"]
        try:
            if e2e:
                lay = mu.layout_for(inp, rng, shapes=("linear",))
                sentinel = "; an earlier file\n" if rng.random() < 0.5 else None
                mods = mu.mods_arg(inp["reqs"], rng)
                o = mu.run_gen_params(paths[inp["lib"]], inp, lay, Path(wd) / "gp", mods, sentinel=sentinel)
                diffs = compare_e2e(case, o, lay, sentinel)
                out.append((ci, diffs, {"layout": lay, "mods": mods, "sentinel": sentinel, "observed": {k: o[k] for k in ("exc", "files") if k in o}}))
            else:
                lay = mu.layout_for(inp, rng)
                cache = None if rng.random() < 0.25 else inp["lib"]
                res = mu.run_recorded(paths[inp["lib"]], inp, lay, cache_key=cache, default_arg=rng.random() < 0.5, rng=rng)
                diffs = compare_case(case, res, lay)
                out.append((ci, diffs, {"layout": lay, "mods": res.get("mods"), "observed": {k: res[k] for k in ("exc", "load_err", "setup_err", "warnings") if k in res},
                                        "events": res.get("events", [])[:40] if diffs else None}))
        except c.MachineryError:
            raise
        except Exception as exc:  # harness trouble on one case: reported as a difference, never a crash
            out.append((ci, ["harness could not replay the case: %s: %s" % (type(exc).__name__, exc)], {}))
    return out


def describe_case(case):
    inp = case["inp"]
    return {"residues": ["%s%d" % (r["rn"], r["resid"]) for r in inp["res"]], "library": inp["lib"],
            "requests": ["%s%d:%s" % (r["rn"], r["resid"], r["mod"]) for r in inp["reqs"]] or "(none: automatic termini)"}


def replay_cases(ck, cases, libs, label, sd, e2e=False, flags=None):
    wd = c.workdir(PROP, label)
    parts = []
    for i, ch in enumerate(c.chunks(list(enumerate(cases)), NP * 3)):
        parts.append((str(wd / str(i)), libs, ch, sd * 1000 + i, e2e))
    bad = 0
    for part in c.pmap(_replay_chunk, parts, nproc=NP):
        for ci, diffs, info in part:
            case = cases[ci]
            ck.replayed += 1
            ck.count(json.dumps(describe_case(case), sort_keys=True), len(case["hist"]))
            doc = {"kind": "gen_params" if e2e else "S->I replay", "case": case, "lib": libs[case["inp"]["lib"]], "flags": flags, "info": info}
            if diffs:
                bad += 1
                ck.violation(doc, what="%s %s: %s" % ("gen_params" if e2e else "ApplyModifications", json.dumps(describe_case(case)), "; ".join(diffs)[:400]))
            else:
                for f in case["fired"]:
                    ck.violation(doc, sig=SIGS[f], what=WHAT[f])
    return bad


# =========================================================================== I->S random

PROT = ["ALA", "GLY", "SER", "LYS0", "ASP0", "GLU", "HISH", "TRP", "PRO"]
NONP = ["PEO", "PS", "ALAX", "GL", "ala", "HIH"]
ANAMES = ["BB", "SC1", "SC2", "SC3", "CA", "OX"]
SECS = [("bonds", 2, ("1", "0.31", "700")), ("constraints", 2, ("1", "0.25")), ("angles", 3, ("2", "110", "25")),
        ("dihedrals", 4, ("1", "180", "5", "2")), ("position_restraints", 1, ("1", "1000", "1000", "1000")), ("virtual_sites2", 3, ("1", "0.5"))]


def random_case(rng, i, allow_edges=True):
    rns = rng.sample(PROT, rng.randint(2, 4)) + rng.sample(NONP, rng.randint(1, 2))
    blocks = {}
    for rn in rns:
        names = ["BB"] + (rng.sample(ANAMES[1:], rng.randint(2, 4)) if rng.random() > 0.15 else [])
        atoms = [{"an": n, "ty": "T%d" % rng.randint(1, 6), "q": rng.choice(["0.0", "1.0", "-1.0", "0.5"]), "m": rng.choice(["72.0", "36.0", "54.0"])} for n in names]
        blocks[rn] = {"atoms": atoms, "bonds": [(0, j, ("1", "0.27", "5000")) for j in range(1, len(names))]}
    mnames = [n for n in ("N-ter", "C-ter") if rng.random() < 0.85] + rng.sample(["MA", "MB", "MC", "MD", "ME", "MF"], rng.randint(1, 4))
    if rng.random() < 0.08:
        mnames = []
    rng.shuffle(mnames)
    lib = []
    for mi, name in enumerate(mnames):
        pool = ANAMES + (["NEW1"] if rng.random() < 0.1 else [])
        names = rng.sample(pool, rng.randint(1, 3))
        if (rng.random() < 0.7 or name in ("N-ter", "C-ter")) and "BB" not in names:
            names[0] = "BB"
        atoms = []
        for ai, n in enumerate(names):
            rep = []
            keys = [k for k in ("ty", "q", "m") if rng.random() < 0.45]
            if rng.random() < 0.1:
                keys.append("an")
            rng.shuffle(keys)
            for k in keys:
                v = {"ty": "Q%d" % rng.randint(1, 9), "q": rng.choice(["1.0", "-1.0", "0.25", "0.0"]), "m": rng.choice(["80.0", "12.5"]), "an": "R%d%d" % (mi, ai)}[k]
                rep.append({"k": k, "v": v})
            atoms.append({"an": n, "rep": rep})
        ints = []
        usable = [x for x in SECS if (x[1] <= len(names) or (x[0] == "angles" and len(names) == 2)) and (x[1] > 1 or rng.random() < 0.25)]
        for sec, nat, par in rng.sample(usable, min(len(usable), rng.randint(0, 2))):
            for _ in range(rng.randint(1, 2)):
                at = rng.sample(names, nat) if nat <= len(names) else [names[0], names[1], names[0]]
                ints.append({"sec": sec, "at": at, "par": list(par[:-1]) + [str(rng.randint(1, 99))]})
        lib.append({"name": name, "atoms": atoms, "inters": ints, "edges": []})
    if allow_edges and lib and rng.random() < 0.04:
        md = rng.choice(lib)
        if len(md["atoms"]) >= 2:
            md["edges"] = [[md["atoms"][0]["an"], md["atoms"][1]["an"]]]
    n = rng.randint(1, 8)
    start = rng.randint(1, 20)
    res = [{"rn": rng.choice(rns), "resid": start + p} for p in range(n)]
    if rng.random() < 0.5:
        res[0]["rn"] = rng.choice([r for r in rns if r in PROT])
    reqs = []
    rough = rng.random() < 0.35        # requests that may name unknown modifications / residue ids / absent anchors
    if rng.random() > 0.2:
        for _ in range(rng.randint(1, 5)):
            p = rng.randrange(n)
            mod = rng.choice(mnames) if mnames and (not rough or rng.random() < 0.8) else "NOPE"
            if not rough and mnames:
                # prefer a residue that has every atom the interactions of the modification name
                md = next(m for m in lib if m["name"] == mod)
                need = {a for x in md["inters"] for a in x["at"]}
                fit = [q for q in range(n) if need <= {a["an"] for a in blocks[res[q]["rn"]]["atoms"]}]
                if fit:
                    p = rng.choice(fit)
            u = rng.random()
            rn = res[p]["rn"] if u < 0.7 else (rng.choice(rns) if u < 0.9 else "")
            resid = res[p]["resid"] if (not rough or rng.random() < 0.85) else start + n + rng.randint(0, 3)
            reqs.append({"rn": rn, "resid": resid, "mod": mod})
    order = list(range(1, n + 1))
    rng.shuffle(order)
    linkrep = None
    if rng.random() < 0.5:      # the link between consecutive residues replaces attributes of BB: modifications come later and must win
        linkrep = {k: v for k, v in (("ty", "LK%d" % rng.randint(1, 3)), ("q", "0.75")) if rng.random() < 0.7} or {"ty": "LK0"}
    return {"id": "L%d" % i, "blocks": blocks, "lib": lib, "res": res, "ins": order, "reqs": reqs, "split": rng.random() < 0.7, "linkrep": linkrep,
            "e2e": rng.random() < 0.3}


def make_trace(rc, res, pre_res=None):
    """recorded run -> trace for ModsTrace"""
    src = pre_res if "load_err" in res else res
    if src is None or "pre" not in src:
        return None
    inp = {"lib": rc["id"], "res": rc["res"], "ins": rc["ins"], "atoms": src["pre"]["atoms"],
           "base": [dict(x, rq=0, mi=0) for x in src["pre"]["inters"]], "reqs": rc["reqs"]}
    evs = []
    if "load_err" in res:
        evs.append(dict(mu._ev("error", 0, err="load"), reqs=[], atoms=inp["atoms"], added=[]))
        return {"inp": inp, "events": evs}
    evs.append(dict(mu._ev("load"), reqs=[], atoms=[], added=[]))
    added, lost = mu.added_inters(res["pre"]["inters"], res["post"]["inters"])
    adds = [e["x"][0] for e in res["events"] if e["op"] == "add"]
    if lost or mu.skey(adds) != mu.skey(added):
        # the molecule holds other interactions than the add events account for: let the specification see what is there
        adds = added + [{"sec": "(lost)", "at": x["at"], "par": x["par"]} for x in lost]
    for e in mu.canon_events(res["events"]):
        d = dict(e, reqs=[], atoms=[], added=[])
        if e["op"] in ("begin", "nomods"):
            d["reqs"] = res["reqs"]
        if e["op"] in ("finish", "error"):
            d["atoms"] = res["post"]["atoms"]
            d["added"] = adds
        evs.append(d)
    return {"inp": inp, "events": evs}


def _random_chunk(arg):
    wd, items, sd = arg
    rng = random.Random(sd)
    out = []
    for i, rc in items:
        d = Path(wd) / ("c%d" % i)
        try:
            paths = mu.write_ff(d, rc["blocks"], rc["lib"], tag="r", split=rc["split"], linkrep=rc.get("linkrep"))
            inp = {"res": rc["res"], "ins": rc["ins"], "reqs": rc["reqs"]}
            lay = mu.layout_for(dict(inp, reqs=[]), rng, shapes=("linear", "cyclic", "tree"))
            res = mu.run_recorded(paths, inp, lay, default_arg=rng.random() < 0.5, rng=rng)
            pre_res = None
            if "load_err" in res:
                p0 = mu.write_ff(d / "noload", rc["blocks"], [], tag="r", linkrep=rc.get("linkrep"))
                pre_res = mu.run_recorded(p0, dict(inp, reqs=[]), lay, mods=[["X1", "none"]])
            tr = make_trace(rc, res, pre_res)
            obs = {k: res[k] for k in ("exc", "load_err", "setup_err", "mods") if k in res}
            if rc.get("e2e") and tr is not None and "mods" in res:
                # the same input through gen_params: the written file must show the molecule the (validated) processors produced
                o = mu.run_gen_params(paths, inp, lay, d / "gp", res["mods"])
                obs["e2e"] = {"exc": o.get("exc"), "files": o["files"], "atoms": [list(x[:4]) for x in mu.itp_atoms(o["itp"])] if "itp" in o else None,
                              "inters": mu.bag(o["itp"]["inters"]) if "itp" in o else None, "itp_err": o.get("itp_err")}
                if "post" in res:
                    obs["e2e"]["expected_inters"] = mu.bag(res["post"]["inters"])
            out.append((i, tr, obs, lay))
        except c.MachineryError:
            raise
        except Exception as exc:
            out.append((i, None, {"harness": "%s: %s" % (type(exc).__name__, exc)}, None))
        shutil.rmtree(d, ignore_errors=True)
    return out


def tlc_traces(traces, libs, flags, name):
    wd = c.workdir(PROP, name)
    f = wd / "traces.json"
    f.write_text(json.dumps({"libs": libs, "asis": {k: bool(v) for k, v in flags.items()}, "traces": traces}))
    res = c.tlc("ModsTrace", "Mod_trace.cfg", workers=1, env={"TRACE_FILE": str(f), "JAVA_TOOL_OPTIONS": mu.LIGHT_JVM}, check=False, timeout=1800)
    rej = res.tagged("REJECTED")
    fired = res.tagged("FIRED")
    if (res.rc != 0 and not rej) or not fired:
        raise c.MachineryError("ModsTrace failed: %s" % res.out[-3000:])
    rejected = {}
    for r in rej:
        rejected.update({int(t): int(m) for t, m in r})
    fr = fired[-1]
    if isinstance(fr, dict):
        fr = [fr[str(i + 1)] for i in range(len(fr))]
    return res, rejected, [list(x) if not isinstance(x, dict) else list(x.values()) for x in fr]


def validate(ck, traces, libs, flags, name, info, expect_reject=False):
    res, rejected, fired = tlc_traces(traces, libs, flags, name)
    if expect_reject:
        return rejected
    ck.add_tlc(res)
    ck.traces += len(traces) - len(rejected)
    for t, tr in enumerate(traces, 1):
        doc = {"kind": "I->S trace", "what": info[t - 1]["what"], "gen": info[t - 1].get("gen"), "flags": flags, "observed": info[t - 1].get("observed")}
        if t in rejected:
            m = rejected[t]
            nxt = tr["events"][m] if m < len(tr["events"]) else None
            doc["events"] = tr["events"][:m + 1]
            doc["matched_events"] = m
            ck.violation(doc, what="recorded run (%s) rejected by Mods after %d matched events; next event %s" % (
                info[t - 1]["what"], m, json.dumps({k: nxt[k] for k in ("op", "k", "a", "sets", "x", "err")} if nxt else None)[:300]))
        else:
            for f in fired[t - 1]:
                ck.violation(doc, sig=SIGS[f], what=WHAT[f])
    return rejected


def judge_e2e(ck, label, tr, obs, gen):
    """the same input through gen_params: the written file must show what the (validated) processors produced"""
    e2e = obs.get("e2e")
    if e2e is None:
        return
    last = tr["events"][-1]
    why = None
    truncated = any(len(x["at"]) != mu.NATOMS.get(x["sec"], len(x["at"])) for x in last["added"])
    if truncated:
        pass        # open finding mod-interaction-truncated (reported through FIRED): the writer sorts / rejects such lines by its own rules
    elif last["op"] == "finish":
        if e2e["exc"]:
            why = "gen_params raised %s: %s" % (e2e["exc"]["type"], e2e["exc"]["msg"][:100])
        elif e2e["atoms"] is None:
            why = "gen_params wrote no readable file (%s)" % (e2e.get("itp_err") or e2e["files"])
        elif [list(x) for x in e2e["atoms"]] != [[a["an"], a["ty"], a["q"], a["m"]] for a in last["atoms"]]:
            why = "gen_params wrote other atoms than the processors produced (modifications must come after the links)"
        elif [list(map(_l, x)) for x in e2e["inters"]] != [list(map(_l, x)) for x in e2e.get("expected_inters") or []]:
            why = "gen_params wrote other interactions than the processors produced"
    elif not e2e["exc"] or e2e["files"]:
        why = "the processors fail (%s) but gen_params %s" % (last["err"], "returns normally" if not e2e["exc"] else "leaves files %s" % e2e["files"])
    if why:
        ck.violation({"kind": "I->S run", "gen": gen, "observed": obs}, what="%s: %s" % (label, why))


def _l(v):
    return list(v) if isinstance(v, (list, tuple)) else v


def random_traces(ck, n, sd, flags, name="random"):
    rng = random.Random(sd)
    rcs = [random_case(rng, i) for i in range(n)]
    wd = c.workdir(PROP, name)
    parts = [(str(wd / str(i)), ch, sd * 7919 + i) for i, ch in enumerate(c.chunks(list(enumerate(rcs)), NP * 2))]
    got = {}
    for part in c.pmap(_random_chunk, parts, nproc=NP):
        for i, tr, obs, lay in part:
            got[i] = (tr, obs, lay)
    traces, libs, info = [], {}, []
    stats = {"load_error": 0, "error": 0, "finish": 0, "no_requests": 0, "adds": 0, "visits_with_assignments": 0, "skips": 0}
    for i, rc in enumerate(rcs):
        tr, obs, lay = got[i]
        gen = {"case": rc, "layout": lay}
        if tr is None:
            ck.violation({"kind": "I->S run", "gen": gen, "observed": obs}, what="random case %d could not be set up on the real code: %s" % (i, json.dumps(obs)[:300]))
            continue
        libs[rc["id"]] = rc["lib"]
        if obs.get("e2e") is not None:
            stats["through_gen_params"] = stats.get("through_gen_params", 0) + 1
        judge_e2e(ck, "random case %d" % i, tr, obs, gen)
        traces.append(tr)
        info.append({"what": "random case %d: %s, requests %s" % (i, [r["rn"] for r in rc["res"]], ["%s%d:%s" % (r["rn"], r["resid"], r["mod"]) for r in rc["reqs"]]),
                     "gen": gen, "observed": obs})
        last = tr["events"][-1]
        stats["load_error" if last["err"] == "load" else last["op"]] += 1
        stats["no_requests"] += 0 if rc["reqs"] else 1
        stats["adds"] += sum(1 for e in tr["events"] if e["op"] == "add")
        stats["skips"] += sum(1 for e in tr["events"] if e["op"] == "skip")
        stats["visits_with_assignments"] += sum(1 for e in tr["events"] if e["op"] == "visit" and e["sets"])
        ck.count(json.dumps([rc["res"], rc["reqs"], [m["name"] for m in rc["lib"]]]), len(tr["events"]))
    for b, lo in enumerate(range(0, len(traces), 400)):
        validate(ck, traces[lo:lo + 400], libs, flags, "%s_tlc%d" % (name, b), info[lo:lo + 400])
    return traces, libs, info, stats


# =========================================================================== I->S shipped library

AMINO = ["GLY", "ALA", "CYS", "VAL", "LEU", "ILE", "MET", "PRO", "HYP", "ASN", "GLN", "ASP", "GLU", "THR", "SER", "LYS", "ARG", "HIS", "HIH", "PHE", "TYR", "TRP"]
POLY = ["PEO", "PS", "PVA", "PMMA"]


def _shipped_chunk(arg):
    wd, items, sd = arg
    rng = random.Random(sd)
    out = []
    ff = mu.load_ff([], lib=["martini3"], cache_key="martini3")
    lib = mu.project_lib(ff)
    mnames = [m["name"] for m in lib]
    for i, spec in items:
        try:
            inp = {"res": spec["res"], "ins": spec["ins"], "reqs": spec["reqs"]}
            lay = mu.layout_for(dict(inp, reqs=[]), rng, shapes=("linear",))
            res = mu.run_recorded([], inp, lay, lib=["martini3"], cache_key="martini3", default_arg=rng.random() < 0.5, rng=rng)
            tr = make_trace({"id": "martini3", "res": spec["res"], "ins": spec["ins"], "reqs": spec["reqs"]}, res)
            e2e = None
            if spec.get("e2e") and tr is not None:
                seq = ["%s:1" % r["rn"] for r in spec["res"]]
                o = mu.run_gen_params([], inp, lay, Path(wd) / ("gp%d" % i), res["mods"], lib=["martini3"], seq=seq)
                e2e = {"exc": o.get("exc"), "atoms": mu.itp_atoms(o["itp"]) if "itp" in o else None, "files": o["files"]}
            out.append((i, tr, {k: res[k] for k in ("exc", "load_err", "setup_err", "mods", "warnings") if k in res}, e2e))
        except c.MachineryError:
            raise
        except Exception as exc:
            out.append((i, None, {"harness": "%s: %s" % (type(exc).__name__, exc)}, None))
    return lib, mnames, out


def judge_shipped_e2e(ck, what, spec, tr, e2e):
    last = tr["events"][-1]
    if last["op"] == "finish":
        exp = [[a["an"], a["ty"], a["q"], a["m"]] for a in last["atoms"]]
        obs_a = [list(x[:4]) for x in e2e["atoms"]] if e2e["atoms"] is not None else None
        if e2e["exc"] or obs_a != exp:
            ck.violation({"kind": "I->S shipped", "gen": {"shipped": spec}, "observed": e2e}, what="gen_params -lib martini3 %s writes other atoms than the validated run of the processors (%s)" % (
                what, e2e["exc"] or "atoms differ"))
    elif not e2e["exc"] or e2e["files"]:
        ck.violation({"kind": "I->S shipped", "gen": {"shipped": spec}, "observed": e2e}, what="gen_params -lib martini3 %s: the processors fail (%s) but gen_params %s" % (
            what, last["err"], "returns normally" if not e2e["exc"] else "leaves files %s" % e2e["files"]))


def shipped(ck, n, sd, flags):
    rng = random.Random(sd + 5)
    mods = ["C-ter", "N-ter", "zwitter", "COOH-ter", "NH2-ter", "CCAP-ter", "NCAP-ter"]
    specs = []
    for i in range(n):
        k = rng.randint(1, 12)
        u = rng.random()
        if u < 0.7:
            names = [rng.choice(AMINO) for _ in range(k)]
        elif u < 0.85:      # polymer blocks in front of / behind a peptide
            names = [rng.choice(POLY)] * rng.randint(1, 3) + [rng.choice(AMINO) for _ in range(k)] + [rng.choice(POLY)] * rng.randint(0, 2)
        else:
            names = [rng.choice(POLY)] * k
        start = rng.choice([1, 1, 1, 5, 17])
        res = [{"rn": rn, "resid": start + p} for p, rn in enumerate(names)]
        reqs = []
        if rng.random() < 0.6:
            for _ in range(rng.randint(1, 4)):
                p = rng.randrange(len(res))
                reqs.append({"rn": res[p]["rn"] if rng.random() < 0.8 else rng.choice(AMINO), "resid": res[p]["resid"] if rng.random() < 0.93 else start + len(res) + 2,
                             "mod": rng.choice(mods) if rng.random() < 0.9 else "Nter"})
        order = list(range(1, len(res) + 1))
        rng.shuffle(order)
        specs.append({"res": res, "ins": order, "reqs": reqs, "e2e": start == 1 and i % 3 == 0})
    wd = c.workdir(PROP, "shipped")
    parts = [(str(wd / str(i)), ch, sd * 31 + i) for i, ch in enumerate(c.chunks(list(enumerate(specs)), NP))]
    traces, info, lib = [], [], None
    ne2e = 0
    ungated = set()
    for plib, mnames, part in c.pmap(_shipped_chunk, parts, nproc=NP):
        lib = plib
        for i, tr, obs, e2e in part:
            spec = specs[i]
            what = "martini3 %s, requests %s" % ([r["rn"] for r in spec["res"]], ["%s%d:%s" % (r["rn"], r["resid"], r["mod"]) for r in spec["reqs"]] or "(automatic termini)")
            if tr is None:
                ck.violation({"kind": "I->S shipped", "gen": {"shipped": spec}, "observed": obs}, what="%s could not be run: %s" % (what, json.dumps(obs)[:300]))
                continue
            traces.append(tr)
            info.append({"what": what, "gen": {"shipped": spec}, "observed": obs})
            ck.count("shipped:" + what, len(tr["events"]))
            for e in tr["events"]:
                if e["op"] == "skip":
                    rn = next((r["rn"] for r in spec["res"] if r["resid"] == (tr["events"][1]["reqs"][e["k"] - 1]["resid"])), None)
                    if rn in AMINO:
                        ungated.add(rn)
            if e2e is not None:
                ne2e += 1
                judge_shipped_e2e(ck, what, spec, tr, e2e)
    if traces:
        validate(ck, traces, {"martini3": lib}, flags, "shipped_tlc", info)
    ck.extra["shipped"] = {"library": "martini3", "modifications": [m["name"] for m in (lib or [])], "runs": len(traces), "through_gen_params": ne2e,
                           "amino_acid_blocks_not_passing_the_gate": sorted(ungated)}
    if ungated:
        ck.note("X05: shipped martini3 amino-acid blocks whose name is not in the gate list of apply_modifications.py (a terminus on such a residue is skipped with a "
                "warning): %s" % sorted(ungated))
    return traces, lib, info


# =========================================================================== entry points

def run(tier):
    ck = c.Check(PROP, tier)
    quick = tier == "quick"
    sd = c.seed()
    flags = ledger_flags()
    ck.rule = ("S->I: every input of ModsMC (residue sequences over ALA / GLY / PEO of length <= 3 x libraries full / noter / empty / edges x request lists of length "
               "<= 2 over every residue x every modification + unknown name + missing residue id + other residue name), one case per input; distinct = "
               "(residues, library, requests). I->S: random force fields / requests (<= 8 residues, <= 4-atom blocks, <= 5 requests) and martini3 runs")
    ck.assumptions = ["residue ids are contiguous (MapToMolecule numbers atoms contiguously; C01 domain); atom names are unique within a residue and a rename never "
                      "produces a name the residue already has; node key of a modification atom = its atom name; replace is restricted to atomname / atype / charge / mass",
                      "node keys, insertion order and the shape of the residue graph (linear, cyclic, tree) are drawn by the harness: the specification claims they do not matter",
                      "the flags of the open findings (%s) follow known_findings.d: %s" % (", ".join(SIGS.values()), json.dumps(flags))]
    ck.stage("TLC: model, as-is classifier, sensitivity, expectations, export")
    jobs = [("ModsMC", "Mod_small.cfg" if quick else "Mod_full.cfg", {"workers": 2 if quick else 4, "coverage": True, "timeout": 7200, "light": quick}),
            ("ModsExport", "Mod_export.cfg" if quick else "Mod_export_full.cfg", {"workers": 1 if quick else 2, "timeout": 7200, "env": flag_env(flags), "light": quick}),
            ("ModsMC", "Mod_asis_tiny.cfg" if quick else "Mod_asis.cfg", {"workers": 1, "timeout": 3600, "light": quick})]
    jobs += [("ModsMC", cfg, {"check": False, "timeout": 1800, "light": True}) for cfg, _, _ in DEVS]
    jobs += [("ModsMC", cfg, {"check": False, "timeout": 1800, "light": True}) for cfg, _ in EXPS]
    res = mu.tlc_group(jobs, par=4)
    main, ex, asis = res[0], res[1], res[2]
    ck.model_must_hold(main, "Conform / ErrorLaw / Frame / ResolveLaw / TerminiLaw / ReplaceLaw (I-layer = P-layer, any visiting order)")
    cov = main.coverage()
    for act in ("Load", "Begin", "Select", "VisitAny", "Inter", "Finish"):
        if cov.get(act, 0) <= 0:
            raise c.MachineryError("Mods action %s never taken (vacuous model)" % act)
    ck.model_must_hold(asis, "IntendedUnlessFired (with the open findings switched on, a behaviour on which none fired is the intended one)")
    for r, (cfg, inv, what) in zip(res[3:3 + len(DEVS)], DEVS):
        ck.model_must_refute(r, inv, what)
    for r, (cfg, inv) in zip(res[3 + len(DEVS):], EXPS):
        ck.model_must_refute(r, inv, "expectation / witness")
    ck.extra["deviations_refuted"] = [cfg[8:-4] for cfg, _, _ in DEVS]
    ck.extra["expectations_refuted"] = [inv for _, inv in EXPS if inv.startswith("Exp")]
    ck.note("X05 expectations refuted by TLC on apply_modifications as it is (stated in the P-layer as found; notes, see notes/design_updates/X05.md): "
            "(1) ExpResnameMatters - the residue name of a -mods request is never consulted, only the residue id; "
            "(2) ExpEveryRequestApplied - residues whose name is not in the built-in amino-acid list are skipped with a warning, whatever the modification; "
            "(3) ExpAddsAtoms - atoms are never added (a modification atom absent from the residue is ignored, or KeyError when an interaction needs it); [ edges ] have no effect; "
            "(4) ExpIdempotent - a repeated request appends its interactions again; "
            "(5) ExpAtomicInMemory - after an error the molecule in memory keeps the effects applied so far (the output file is not written); "
            "(6) ExpTerminiPerSegment - automatic termini are the residues with the lowest and highest residue id of the whole molecule (polymer-peptide conjugates, "
            "cycles, several chains: no other residue is considered); the `protter` argument of gen_params is unused: termini are attempted whenever -mods is absent; "
            "(7) ExpUnknownModIsError - with a library without any modification nothing is looked up: unknown names pass with a warning; "
            "(8) the `from_itp` guard of apply_mod can never trigger (default 'False' is a non-empty string)")
    # ---- S->I
    ck.model_must_hold(ex, "Mods export")
    libs_t = ex.tagged("LIBS")
    if not libs_t:
        raise c.MachineryError("ModsExport printed no library catalogue")
    libs = mu.norm_libs(libs_t[0])
    cases = [mu.norm_case(k) for k in ex.cases()]
    if len(cases) < 5000:
        raise c.MachineryError("ModsExport produced %d cases" % len(cases))
    ck.extra["inputs_exported"] = len(cases)
    ck.extra["exported_by_outcome"] = {}
    for k in cases:
        key = k["fin"]["pc"] + ("" if k["fin"]["err"] == "none" else ":" + k["fin"]["err"])
        ck.extra["exported_by_outcome"][key] = ck.extra["exported_by_outcome"].get(key, 0) + 1
    ck.extra["exported_with_open_finding"] = {f: sum(1 for k in cases if f in k["fired"]) for f in SIGS}
    for f, on in flags.items():
        if on and not ck.extra["exported_with_open_finding"][f]:
            raise c.MachineryError("open finding %s never fires in the exported instance" % f)
    mid = next(k for k in cases if len(k["inp"]["reqs"]) == 2 and k["fin"]["pc"] == "done" and k["fin"]["added"] and not k["fired"])
    ck.sample({"S->I input": describe_case(mid), "events": [[e["op"], e["k"], e["a"], e["sets"], e["x"]] for e in mid["hist"]], "final atoms": mid["fin"]["atoms"]})
    rq = random.Random(sd)
    if quick:
        cases_run = cases
    else:
        keep = [k for k in cases if k["fired"] or len(k["inp"]["reqs"]) < 2]
        rest = [k for k in cases if not (k["fired"] or len(k["inp"]["reqs"]) < 2)]
        cases_run = keep + rq.sample(rest, min(len(rest), 40000))
    ck.stage("replay %d of %d inputs on ApplyModifications" % (len(cases_run), len(cases)))
    replay_cases(ck, cases_run, libs, "replay", sd, flags=flags)
    ne = 350 if quick else 3000
    err = [k for k in cases if k["fin"]["pc"] == "error"]
    fired = [k for k in cases if k["fired"]]
    sub = rq.sample(err, min(len(err), ne // 3)) + rq.sample(fired, min(len(fired), ne // 6)) + rq.sample(cases, min(len(cases), ne // 2))
    ck.stage("gen_params end to end on %d inputs" % len(sub))
    replay_cases(ck, sub, libs, "e2e", sd + 1, e2e=True, flags=flags)
    ck.extra["through_gen_params"] = len(sub)
    # ---- I->S
    nr = 250 if quick else 3000
    ck.stage("random force fields / requests: %d runs" % nr)
    traces, rlibs, info, stats = random_traces(ck, nr, sd + 11, flags)
    ck.extra["random_runs"] = stats
    if not ck.violations:
        for key, least in (("error", nr // 20), ("finish", nr // 5), ("adds", nr // 10), ("visits_with_assignments", nr // 2), ("skips", nr // 20), ("no_requests", nr // 20)):
            ck.require(stats[key] >= least, "random runs are too uniform: %s = %d < %d" % (key, stats[key], least))
    if traces:
        big = max(range(len(traces)), key=lambda t: len(traces[t]["events"]))
        ck.sample({"I->S random run": info[big]["what"], "events": [[e["op"], e["k"], e["a"], e["sets"], e["x"], e["err"]] for e in traces[big]["events"]][:25]})
    # binding demonstration: a corrupted record must be rejected
    ck.stage("binding demonstration")
    demos = []
    for t, tr in enumerate(traces):
        vis = [i for i, e in enumerate(tr["events"]) if e["op"] == "visit" and e["sets"]]
        add = [i for i, e in enumerate(tr["events"]) if e["op"] == "add"]
        if vis and len(demos) == 0:
            d = json.loads(json.dumps(tr))
            d["events"][vis[0]]["sets"][0]["v"] += "9"
            demos.append(("an assignment of a visit event changed", d))
        if add and len(demos) == 1:
            d = json.loads(json.dumps(tr))
            x = d["events"][add[0]]["x"][0]
            same = [i + 1 for i, a in enumerate(d["inp"]["atoms"]) if a["an"] == d["inp"]["atoms"][x["at"][0] - 1]["an"] and a["res"] != d["inp"]["atoms"][x["at"][0] - 1]["res"]]
            if same:
                x["at"][0] = same[0]
                demos.append(("an added interaction moved to the same-named atom of another residue", d))
        if len(demos) == 2:
            break
    if ck.require(len(demos) == 2, "no recorded run to corrupt for the binding demonstration"):
        rej = validate(ck, [d for _, d in demos], rlibs, flags, "corrupt", [{"what": w} for w, _ in demos], expect_reject=True)
        if sorted(rej) != [1, 2]:
            raise c.MachineryError("binding demonstration failed: corrupted traces accepted (%s rejected of 2)" % sorted(rej))
        ck.extra["binding_demo"] = ["%s: rejected after %d matched events" % (demos[t - 1][0], m) for t, m in sorted(rej.items())]
    ns = 18 if quick else 150
    ck.stage("shipped martini3 library: %d runs" % ns)
    shipped(ck, ns, sd, flags)
    ck.exhaustive = True
    return ck.finish()


def replay(path):
    doc = json.loads(open(path).read())
    case = doc["case"]
    ck = c.Check(PROP, "quick")
    kind = case.get("kind")
    flags = case.get("flags") or ledger_flags()
    if kind in ("S->I replay", "gen_params"):
        libs = {case["case"]["inp"]["lib"]: case["lib"]}
        replay_cases(ck, [case["case"]], libs, "replay_one", doc.get("seed", 0), e2e=(kind == "gen_params"), flags=flags)
    elif kind in ("I->S trace", "I->S run") and case.get("gen") and "case" in case["gen"]:
        rc = case["gen"]["case"]
        wd = c.workdir(PROP, "replay_rand")
        (i, tr, obs, lay), = _random_chunk((str(wd), [(0, rc)], 0))
        if tr is None:
            print("cannot set up:", obs)
            ck.violations += 1
        else:
            validate(ck, [tr], {rc["id"]: rc["lib"]}, flags, "replay_tlc", [{"what": "replayed random case", "gen": case["gen"], "observed": obs}])
            judge_e2e(ck, "replayed random case", tr, obs, case["gen"])
    elif case.get("gen") and "shipped" in case["gen"]:
        spec = case["gen"]["shipped"]
        wd = c.workdir(PROP, "replay_shipped")
        lib, mnames, part = _shipped_chunk((str(wd), [(0, spec)], 0))
        (i, tr, obs, e2e), = part
        if tr is None:
            print("cannot run:", obs)
            ck.violations += 1
        else:
            validate(ck, [tr], {"martini3": lib}, flags, "replay_tlc", [{"what": "replayed martini3 run", "gen": case["gen"], "observed": obs}])
            if e2e is not None:
                judge_shipped_e2e(ck, "replayed martini3 run", spec, tr, e2e)
    else:
        print("unknown kind of stored case:", kind)
        return 2
    print("replayed: %s" % ("still fails" if ck.violations else "passes now"))
    return 1 if ck.violations else 0
