"""C03 - gen_coords writes one finite coordinate per topology atom, in topology order, with the right box.

spec/GenCoordsOut.tla : P-layer Listing(mollist) (expansion of [ molecules ]) and BoxP (structure box > -box > density);
                        I-layer = the if/elif chain of gen_coords + BuildSystem box initialisation; BoxRule checked by TLC.
S->I : option records x molecule lists enumerated by TLC are rendered into real files (.top, .gro for -c/-mc, .bld, grid file,
       -res / -start / -box / -dens arguments) and run through the real gen_coords (placement under a random forced failure
       schedule); the written .gro must list exactly Listing(mollist) with finite coordinates and carry the box BoxP selects
       (for the density box the monitor checks L^3 * density = total mass * 1.6605410 with the mass TLC computed).
I->S : the build traces of these runs are validated by WalkTrace (Final: every residue positioned exactly once).
"""
import json
import random
import signal
import tempfile
from pathlib import Path

import numpy as np

from .. import common as c
from .. import walk_util as w
from . import c17

BOX_OPT = [5.2, 5.4, 5.6]
BOX_STRUCT = [6.0, 6.1, 6.2]
DENS = 25.0

TYPE_TXT = {
    "W": "[ moleculetype ]\nW 1\n[ atoms ]\n1 Q 1 W W 1 0.0 72\n",
    "A": ("[ moleculetype ]\nA 1\n[ atoms ]\n1 P 1 RA a1 1 0.0 36\n2 P 1 RA a2 1 0.0 36\n3 P 2 RB b1 2 0.0 36\n4 P 2 RB b2 2 0.0 36\n"
          "5 P 3 RA a1 3 0.0 36\n6 P 3 RA a2 3 0.0 36\n[ bonds ]\n1 2 1 0.30 1000\n3 4 1 0.33 1000\n5 6 1 0.30 1000\n2 3 1 0.40 1000\n4 5 1 0.40 1000\n"),
    "L": ("[ moleculetype ]\nL 1\n[ atoms ]\n" + "".join("%d P %d %s %s %d 0.0 36\n" % (i, i, "RA" if i % 2 else "RB", "a1" if i % 2 else "b1", i) for i in range(1, 9))
          + "[ bonds ]\n" + "".join("%d %d 1 0.40 1000\n" % (i, i + 1) for i in range(1, 8))),
    "V": ("[ moleculetype ]\nV 1\n[ atoms ]\n1 P 1 RV c1 1 0.0 36\n2 P 1 RV c2 1 0.0 36\n3 P 1 RV v 1 0.0 0\n4 P 2 RA a1 2 0.0 36\n5 P 2 RA a2 2 0.0 36\n"
          "[ bonds ]\n1 2 1 0.35 1000\n4 5 1 0.30 1000\n2 4 1 0.40 1000\n[ virtual_sites2 ]\n3 1 2 1 0.5\n"),
}


def top_text(mollist, split_include=False):
    s = "[ defaults ]\n1 2 no 1.0 1.0\n[ atomtypes ]\nP 36.0 0.0 A 0.40 2.0\nQ 72.0 0.0 A 0.47 4.0\n"
    for t in ("W", "A", "V", "L"):
        if any(e["type"] == t for e in mollist):
            s += TYPE_TXT[t]
    entries = ["%s %d\n" % (e["type"], e["n"]) for e in mollist]
    if split_include and len(entries) > 1:
        # the first part of [ molecules ] lives in an included file, the rest follows in the main file
        return s + "[ system ]\nc03\n#include \"mols.itp\"\n[ molecules ]\n" + "".join(entries[1:]), "[ molecules ]\n" + entries[0]
    s += "[ system ]\nc03\n[ molecules ]\n" + "".join(entries)
    return s, None


def struct_gro(listing, mode, mollist, skip=()):
    """coordinates for -c (all atoms / a residue-complete prefix) or -mc (one row per residue)"""
    rows, k = [], 0
    # group listing into residues per molecule instance
    residues = []
    for a in listing:
        if residues and residues[-1][0] == (a["_mol"], a["resid"]):
            residues[-1][1].append(a)
        else:
            residues.append(((a["_mol"], a["resid"]), [a]))
    if mode == "partial":
        residues = residues[:max(1, len(residues) // 2)]
    # residues named for rebuilding do not consume rows: the file must omit them
    residues = [r for r in residues if r[1][0]["rn"] not in skip]
    for ri, (key, atoms) in enumerate(residues):
        base = np.array([0.6 + 0.45 * (ri % 10), 0.8 + 0.5 * (ri // 10) + 0.9 * (key[0] % 5), 1.0 + 0.3 * (key[0] // 5)])
        if mode == "meta":
            k += 1
            rows.append("%5d%-5s%5s%5d%8.3f%8.3f%8.3f" % (atoms[0]["resid"], atoms[0]["rn"], "X", k, base[0], base[1], base[2]))
        else:
            for j, a in enumerate(atoms):
                k += 1
                p = base + np.array([0.12 * j, 0.05 * j, 0.0])
                if a["an"] == "v":   # a virtual site sits where it is constructed
                    p = base + np.array([0.06, 0.025, 0.0])
                rows.append("%5d%-5s%5s%5d%8.3f%8.3f%8.3f" % (a["resid"], a["rn"], a["an"], k, p[0], p[1], p[2]))
    return "struct\n%5d\n%s\n%10.5f%10.5f%10.5f\n" % (k, "\n".join(rows), BOX_STRUCT[0], BOX_STRUCT[1], BOX_STRUCT[2]), k


def with_mol_index(listing, mollist):
    out, i, m = [], 0, 0
    natoms = {"W": 1, "A": 6, "V": 5, "L": 8}
    for e in mollist:
        for _ in range(e["n"]):
            for a in listing[i:i + natoms[e["type"]]]:
                b = dict(a)
                b["_mol"] = m
                out.append(b)
            i += natoms[e["type"]]
            m += 1
    return out


class _Timeout(BaseException):
    pass


def _alarm(signum, frame):
    raise _Timeout()


def read_gro(path):
    lines = Path(path).read_text().splitlines()
    n = int(lines[1])
    atoms = [(int(l[0:5]), l[5:10].strip(), l[10:15].strip(), [float(l[20:28]), float(l[28:36]), float(l[36:44])]) for l in lines[2:2 + n]]
    return atoms, [float(x) for x in lines[2 + n].split()], len(lines) - (3 + n)


FIXED_MTIME = 1700000000      # every input file of a history carries this time stamp, whatever its content


def _run_in(wd, case, sd, split=None, in_place=False):
    """one real gen_coords call on the case rendered into directory wd.  in_place: the directory is reused by a history of calls -
    files are overwritten under the same names, files the case does not have are removed, time stamps are forced to FIXED_MTIME"""
    import os
    from polyply import gen_coords
    from vermouth.file_writer import DeferredFileWriter
    opt, mollist = case["opt"], case["mollist"]
    listing = with_mol_index(case["listing"], mollist)
    rng = random.Random(sd)
    budget = {"n": rng.randint(0, 3)}

    def chooser(kinds):
        if budget["n"] > 0 and rng.random() < 0.3:
            budget["n"] -= 1
            return kinds[1]
        return kinds[0]
    np.random.seed(sd)
    random.seed(sd)
    wd = Path(wd)
    written = []

    def put(name, text):
        (wd / name).write_text(text)
        written.append(name)
    main, inc = top_text(mollist, split_include=(sd % 3 == 0) if split is None else split)
    put("s.top", main)
    if inc is not None:
        put("mols.itp", inc)
    kw = {}
    if any(e["type"] == "L" for e in mollist):
        kw["nrewind"] = 2          # short rewinds across residues that are given (skipped steps)
        budget["n"] = rng.randint(2, 6)
    if opt["struct"] != "none":
        txt, _ = struct_gro(listing, opt["struct"], mollist, ("RB",) if opt["res"] else ())
        put("in.gro", txt)
        kw["coordpath_meta" if opt["struct"] == "meta" else "coordpath"] = wd / "in.gro"
    if opt["box"]:
        kw["box"] = np.array(BOX_STRUCT if (opt["struct"] != "none" and not opt["differ"]) else BOX_OPT)
    if opt["dens"]:
        kw["density"] = DENS
    if opt["bld"]:
        put("o.bld", "[ volumes ]\nW 0.45\n")
        kw["build"] = [wd / "o.bld"]
    if opt["res"]:
        kw["build_res"] = ["RB"]
    if opt["grid"]:
        g = np.random.default_rng(sd).uniform(0.2, 2.0, (200, 3))
        np.savetxt(wd / "grid.dat", g)
        written.append("grid.dat")
        kw["grid"] = str(wd / "grid.dat")
    if opt["start"]:
        first = mollist[0]["type"]
        kw["start"] = [{"A": "A-RB#2", "V": "V-RA#2", "W": "W-W#1", "L": "L-RA#3"}[first]]
    if in_place:
        for f in wd.iterdir():
            if f.name not in written:
                f.unlink()
        for name in written:
            os.utime(wd / name, (FIXED_MTIME, FIXED_MTIME))
    with w.recording(chooser=chooser) as rec:
        try:
            gen_coords(toppath=wd / "s.top", outpath=wd / "out.gro", name="c03", max_force=1e12, **kw)
            DeferredFileWriter().write()
        except _Timeout:
            return {"noverdict": "timeout"}
        except w.NoVerdict as exc:
            return {"noverdict": str(exc)}
        except Exception as exc:
            return {"error_in_code": "%s: %s" % (type(exc).__name__, exc), "evs": rec.events[-10:], "inst": rec.header}
    atoms, box, extra = read_gro(wd / "out.gro")
    return {"atoms": atoms, "box": box, "extra_lines": extra, "evs": rec.events, "inst": rec.header, "error_in_code": None}


def _run_one(arg):
    case, sd = arg
    signal.signal(signal.SIGALRM, _alarm)
    signal.setitimer(signal.ITIMER_REAL, 170, 5)
    try:
        with tempfile.TemporaryDirectory(prefix="verif_c03_", dir="/var/tmp") as wd:
            return _run_in(wd, case, sd)
    except _Timeout:
        return {"noverdict": "timeout"}
    finally:
        signal.setitimer(signal.ITIMER_REAL, 0)


def _run_history(arg):
    """GenCoordsHist: the calls of one history in THIS process on ONE directory rewritten in place between the calls"""
    cases, rws, sd = arg
    signal.signal(signal.SIGALRM, _alarm)
    outs = []
    with tempfile.TemporaryDirectory(prefix="verif_c03h_", dir="/var/tmp") as wd:
        for k, (case, rw) in enumerate(zip(cases, rws)):
            signal.setitimer(signal.ITIMER_REAL, 170, 5)
            try:
                # rw False: the same files again, untouched (the call before left them as they are)
                outs.append(_run_in(wd, case, sd + k if rw else sd + k - 1, split=True, in_place=True))
            except _Timeout:
                outs.append({"noverdict": "timeout"})
            finally:
                signal.setitimer(signal.ITIMER_REAL, 0)
            if "noverdict" in outs[-1]:
                break
    return outs


def compare(case, out):
    exp = case["listing"]
    got = out["atoms"]
    if len(got) != len(exp):
        return "the output lists %d atoms, the expanded [ molecules ] section has %d" % (len(got), len(exp))
    for i, (g, e) in enumerate(zip(got, exp)):
        if (g[0], g[1], g[2]) != (e["resid"], e["rn"], e["an"]):
            return "atom %d is %s, topology order requires %s" % (i + 1, g[:3], (e["resid"], e["rn"], e["an"]))
        if not np.all(np.isfinite(g[3])):
            return "atom %d (%s) has a non-finite coordinate" % (i + 1, g[:3])
    kind, box = case["box"], out["box"][:3]
    if kind == "structure":
        if not np.allclose(box, BOX_STRUCT, atol=1e-4):
            return "box %s: the box of the input structure %s is required" % (box, BOX_STRUCT)
    elif kind == "option":
        if not np.allclose(box, BOX_OPT, atol=1e-4):
            return "box %s: the requested box %s is required" % (box, BOX_OPT)
    else:
        L = box[0]
        if not (abs(box[1] - L) < 1e-9 and abs(box[2] - L) < 1e-9):
            return "density box %s is not cubic" % box
        vol, want = L ** 3, case["mass"] * 1.6605410 / DENS
        if abs(vol - want) > 2e-4 * want:
            return "density box volume %.5f, total mass %d / density %.1f requires %.5f" % (vol, case["mass"], DENS, want)
    return None


def stratify(cases, rng, n):
    strata = {}
    for cs in cases:
        o = cs["opt"]
        key = (cs["box"], o["struct"], o["box"], o["dens"])
        strata.setdefault(key, []).append(cs)
    pick, keys = [], sorted(strata)
    while len(pick) < n and keys:
        for key in list(keys):
            if strata[key]:
                pick.append(strata[key].pop(rng.randrange(len(strata[key]))))
            else:
                keys.remove(key)
            if len(pick) >= n:
                break
    return pick


def run(tier):
    ck = c.Check("C03", tier)
    sd = c.seed()
    rng = random.Random(sd)
    ck.rule = ("TLC enumerates option records (box, dens, structure none/full/partial/meta, differing boxes, build file, -res, -grid, -start) x molecule lists over a "
               "single-atom solvent, a 3-residue chain and a molecule with a virtual site; a stratified subset (all in thorough) runs through the real gen_coords; "
               "distinct = (molecule list, option record)")
    ck.assumptions = ["density box compared with relative tolerance 2e-4 on the volume (the code rounds the edge to 5 decimals)",
                      "at least one of -box / -dens / input structure is given (otherwise gen_coords has no box to use)"]
    ck.stage("TLC: box rule, export")
    small, dev, ex, hist, hdev1, hdev2 = c.tlc_many([("MC_GenCoordsOut", "GCO_small.cfg", {"workers": 6}),
                                                     ("MC_GenCoordsOut", "GCO_dev_box.cfg", {"check": False, "workers": 2}),
                                                     ("MC_GenCoordsOutX", "GCO_export.cfg", {"workers": 4}),
                                                     ("GenCoordsHist", "GCH_small.cfg", {"workers": 1}),
                                                     ("GenCoordsHist", "GCH_dev_inc.cfg", {"check": False, "workers": 1}),
                                                     ("GenCoordsHist", "GCH_dev_struct.cfg", {"check": False, "workers": 1})])
    ck.model_must_hold(hist, "HistoryFree/ConsistentInput/NoMemory (call histories on one directory rewritten in place)")
    ck.model_must_refute(hdev1, "HistoryFree", "the included file is remembered by path from its first read")
    ck.model_must_refute(hdev2, "HistoryFree", "the topology / the input structure is remembered by path from its first read")
    ck.model_must_hold(small, "BoxRule/DensityAvailable")
    ck.model_must_refute(dev, "BoxRule", "command-line box wins over the structure box")
    ck.model_must_hold(ex, "export")
    cases = ex.cases()
    ck.require(len(cases) > 1000, "too few cases exported: %d" % len(cases))
    picked = stratify(cases, rng, 160 if tier == "quick" else 1320)
    ck.stage("S->I: %d real gen_coords runs" % len(picked))
    outs = c.pmap(_run_one, [(cs, sd * 10000 + i) for i, cs in enumerate(picked)])
    traces, nov = [], 0
    for i, (cs, out) in enumerate(zip(picked, outs)):
        if "noverdict" in out:
            nov += 1
            continue
        ck.replayed += 1
        ck.count(json.dumps([cs["mollist"], cs["opt"]], sort_keys=True))
        ck.actions["box:" + cs["box"]] = ck.actions.get("box:" + cs["box"], 0) + 1
        if out.get("error_in_code"):
            ck.violation({"kind": "run", "case": cs, "seed": sd * 10000 + i, "error": out["error_in_code"]},
                         what="gen_coords raised on molecules %s with options %s: %s" % (cs["mollist"], cs["opt"], out["error_in_code"]))
            continue
        bad = compare(cs, out)
        if bad:
            ck.violation({"kind": "run", "case": cs, "seed": sd * 10000 + i, "detail": bad},
                         what="gen_coords output for molecules %s with options %s: %s" % (cs["mollist"], cs["opt"], bad))
        if out["inst"]:
            traces.append({"inst": out["inst"], "evs": out["evs"]})
            for e in out["evs"]:
                ck.actions["trace:" + e["ev"]] = ck.actions.get("trace:" + e["ev"], 0) + 1
    ck.extra["no_verdict_runs"] = nov
    ck.require(nov <= 0.2 * len(picked), "too many runs without verdict: %d of %d" % (nov, len(picked)))
    for kind in ("structure", "option", "density"):
        ck.require(ck.actions.get("box:" + kind), "no run exercised the %s box" % kind)
    ck.sample({"case": {k: picked[0][k] for k in ("mollist", "opt", "box", "mass")}, "listing head": picked[0]["listing"][:4]})
    ck.stage("S->I: call histories in one process on one directory (GenCoordsHist)")
    hists = hist.cases()
    ck.require(len(hists) >= 40, "too few call histories exported: %d" % len(hists))
    if tier == "quick":
        hists = [h for h in hists if len(set(h["ids"])) > 1][:: 2] + [h for h in hists if len(set(h["ids"])) == 1][:2]
    # the three input ids of a history are three exported cases that differ in molecule list and options (drawn per history)
    pool = [cs for cs in cases if sum(e["n"] for e in cs["mollist"]) <= 4]
    jobs = []
    for hi, h in enumerate(hists):
        hr = random.Random(sd * 977 + hi)
        trio = []
        while len(trio) < 3:
            cand = hr.choice(pool)
            if all(cand["mollist"] != t["mollist"] for t in trio):
                trio.append(cand)
        jobs.append(([trio[i - 1] for i in h["ids"]], h["rw"], sd * 20000 + 10 * hi))
    nh = 0
    for (hcases, rws, hsd), outs in zip(jobs, c.pmap(_run_history, jobs)):
        for k, out in enumerate(outs):
            if "noverdict" in out:
                nov += 1
                break
            nh += 1
            ck.evaluations += 1
            bad = out.get("error_in_code") or compare(hcases[k], out)
            if bad:
                ck.violation({"kind": "history", "cases": hcases[:k + 1], "rw": rws[:k + 1], "seed": hsd, "call": k + 1, "detail": bad},
                             what="call %d of a history of gen_coords calls in one process (files rewritten in place: %s; molecule lists %s): %s"
                                  % (k + 1, rws[:k + 1], [x["mollist"] for x in hcases[:k + 1]], bad))
                break
            ck.actions["hist:call%d" % (k + 1)] = ck.actions.get("hist:call%d" % (k + 1), 0) + 1
            if out["inst"]:
                traces.append({"inst": out["inst"], "evs": out["evs"]})
    ck.replayed += len(jobs)
    ck.extra["history_calls_compared"] = nh
    ck.require(ck.actions.get("hist:call3"), "no history reached its third call (vacuous)")
    ck.stage("I->S: build traces")
    if traces:
        c17.validate(ck, traces, "runs")
    ck.exhaustive = tier == "thorough"
    return ck.finish()


def replay(path):
    doc = json.loads(open(path).read())
    case = doc["case"]
    if case.get("kind") == "history":
        outs = _run_history((case["cases"], case["rw"], case["seed"]))
        k = len(outs) - 1
        bad = outs[k].get("error_in_code") or ("noverdict" in outs[k] and "no verdict") or (k == case["call"] - 1 and compare(case["cases"][k], outs[k]))
        print("replayed:", bad or "no violation")
        return 1 if bad and bad != "no verdict" else 0
    out = _run_one((case["case"], case["seed"]))
    bad = out.get("error_in_code") or ("noverdict" in out and "no verdict") or compare(case["case"], out)
    print("replayed:", bad or "no violation")
    return 1 if bad and bad != "no verdict" else 0
