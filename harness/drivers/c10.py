"""C10 - every residue-graph edge is realised by a bond or reported as missing.

spec/Links.tla : P-layer Missing(c, E) (residue edges without any atom-level edge between the two residues), ResConnected;
                 I-layer FindMissing (degree-difference filter of find_connecting_edges over the fragment graphs);
                 invariants MissingIsExpected, BondXorMissing.
S->I : TLC enumerates family M (10 force fields with / without applicable links, with edges that have no interaction, bonds that make no
       edge and atom removal) x all connected residue graphs on <= 4 residues x names, plus the feature and dangling-.itp families of C02,
       and prints the expected set of missing residue pairs and whether the residue graph a reader derives is connected.  Every case runs
       through the processors (find_missing_edges) and a sample through the real gen_params: the WARNING records are parsed (both residue
       ids and names) and compared; independently of TLC the real molecule's inter-residue edges are recounted: exactly one of {edge, warning}.
       Gate: the written .itp in a .top through gen_coords must raise IOError iff the residue graph is disconnected (stopped after the gate).
I->S : seeded random cases (5-7 residues, 3 block types, 3 links) through gen_params; the recorded warnings are validated by LinksTrace.
"""
import json
import random

from .. import common as c
from .. import links_util as lu
from . import c02

PROP = "C10"


class _GatePassed(Exception):
    pass


def gate_top(itps, molecules, wd, coord=None):
    """gen_coords on a topology that includes the given .itp files and lists `molecules` = [(name, count)...], optionally with supplied
    coordinates coord = {"kind": "c" | "mc", "k": residues covered, "res": [-res names]}; returns 'raised' (IOError of the connectivity
    gate), 'passed' (reached the step after the gate and after the coordinate files), or another text"""
    import polyply.src.gen_coords as gc
    top = wd / "sys.top"
    types = sorted({a["atype"] for itp in itps for a in lu.read_itp(itp)[0]})
    top.write_text("[ defaults ]\n1 2 no 1.0 1.0\n[ atomtypes ]\n" + "".join("%s 10.0 0.0 A 0.3 1.0\n" % t for t in types)
                   + "".join('#include "%s"\n' % itp for itp in itps) + "[ system ]\ntest\n[ molecules ]\n"
                   + "".join("%s %d\n" % (name, count) for name, count in molecules))
    kw = {}
    if coord and coord["kind"] != "none":
        # a coordinate file with positions for coord["k"] residues (-c: every atom of them, -mc: one position each)
        by_name = {}
        for itp in itps:
            atoms = lu.read_itp(itp)[0]
            by_name[open(itp).read().split("[ moleculetype ]")[1].split()[0]] = atoms
        rows = []
        for name, count in molecules:
            for _ in range(count):
                resids = sorted({a["resid"] for a in by_name[name]})
                for rid in resids:
                    ra = [a for a in by_name[name] if a["resid"] == rid]
                    rows.append(ra if coord["kind"] == "c" else ra[:1])
        rows = rows[:coord["k"]]
        lines, n = [], 0
        for k, ra in enumerate(rows):
            for a in ra:
                n += 1
                lines.append("%5d%-5s%5s%5d%8.3f%8.3f%8.3f" % ((k + 1) % 100000, a["resname"][:5], a["atomname"][:5], n % 100000,
                                                                0.4 + 0.3 * (k % 10), 0.4 + 0.3 * ((k // 10) % 10), 0.4 + 0.05 * (n % 7)))
        gro = wd / "coords.gro"
        gro.write_text("supplied\n%d\n%s\n   5.00000   5.00000   5.00000\n" % (n, "\n".join(lines)))
        kw["coordpath" if coord["kind"] == "c" else "coordpath_meta"] = gro
        if coord["res"]:
            kw["build_res"] = list(coord["res"])
    if coord and coord.get("ign"):
        kw["ignore"] = list(coord["ign"])
    orig = gc.load_build_files

    def stop(*a, **k):
        raise _GatePassed()
    gc.load_build_files = stop
    try:
        gc.gen_coords(toppath=top, outpath=wd / "out.gro", name="test", box=[5.0, 5.0, 5.0], **kw)
    except _GatePassed:
        return "passed"
    except IOError as exc:
        return "raised" if "disconnected" in str(exc) else "IOError: %s" % exc
    except Exception as exc:
        return "%s: %s" % (type(exc).__name__, exc)
    finally:
        gc.load_build_files = orig
    return "returned"


def gate(itp, wd):
    return gate_top([itp], [("t", 1)], wd)


def _bonds_only(links, xlinks=()):
    return all(x["kind"] == "bonds" for l in links for x in l["inters"]) and all(x["kind"] == "bonds" for x in xlinks)


class _HeaderX(c02._Header):
    """family X (module MC_LinksX) prints its force fields under the tag FFSX"""

    def tagged(self, tag):
        return self.res.tagged("FFSX" if tag == "FFS" else tag)


def _coord_text(co):
    txt = "no coordinates" if co["kind"] == "none" else "-%s for %d residues%s" % (co["kind"], co["k"], (" -res " + " ".join(co["res"])) if co["res"] else "")
    return txt + ((", -ign " + " ".join(co["ign"])) if co.get("ign") else "")


def _multi_gate_chunk(arg):
    tops, itps, wdname = arg
    c.quiet()
    wd = c.workdir(PROP, "gate_%s" % wdname)
    bad = []
    for t in tops:
        mols = [(e["mol"], e["count"]) for e in t["top"]]
        used = sorted({m for m, _ in mols})
        got = gate_top([itps[m] for m in used], mols, wd, t["co"])
        want = "raised" if t["must_refuse"] else "passed"
        if got != want:
            bad.append((t, got, want))
    return bad, len(tops)


def multi_gate_stage(ck, res, tier, rng):
    """the gate over multi-molecule topologies and supplied coordinates: the four molecules TLC defines (GATEMOLS: two whose residue
    graph the P-layer calls connected, two disconnected) are generated by the real gen_params and combined as the exported cases say
    (disconnected molecule first / in the middle / last, repeated types, -c / -mc files covering all, all but one, the first molecule,
    one residue, with and without -res); cases in which the statement is silent (a disconnected molecule completely supplied by -c and
    nothing else to refuse) are not asserted"""
    tops = res.cases()
    mols = res.tagged("GATEMOLS")
    asserted = [t for t in tops if t["must_refuse"] or t["must_pass"]]
    if len(tops) < 2900 or not mols or not any(t["must_refuse"] for t in tops) or not any(t["must_pass"] for t in tops) or len(asserted) == len(tops):
        raise c.MachineryError("gate export: %d cases, %d asserted" % (len(tops), len(asserted)))
    ck.extra["gate_cases_exported"] = {"all": len(tops), "must_refuse": sum(1 for t in tops if t["must_refuse"]), "must_pass": sum(1 for t in tops if t["must_pass"])}
    wd = c.workdir(PROP, "gate_molecules")
    itps = {}
    for name, spec in sorted(mols[0].items()):
        sub = c.workdir(PROP, "gate_molecules/%s" % name)
        for l in spec["links"]:
            for at in l["atoms"]:
                if isinstance(at["rep"], list):
                    at["rep"] = {}
        for b in spec["blocks"].values():
            b.setdefault("dang", [])
        paths = lu.write_ff(sub, spec["blocks"], spec["links"], "ff", 0)
        obs = lu.run_gen_params(spec["input"], spec["blocks"], spec["links"], paths, sub)
        if "exception" in obs:
            ck.violation({"kind": "gate", "input": spec["input"], "ff": {"blocks": spec["blocks"], "links": spec["links"]}, "observed": obs["exception"]},
                         what="gen_params on gate molecule %s raised %s" % (name, obs["exception"]))
            continue
        txt = open(obs["itp"]).read()
        head, sep, rest = txt.partition("[ moleculetype ]")
        lines = rest.split("\n")
        for k, line in enumerate(lines):
            if line.split() and not line.strip().startswith(";"):
                lines[k] = "%s 1" % name
                break
        out = wd / ("%s.itp" % name)
        out.write_text(head + sep + "\n".join(lines))
        itps[name] = str(out)
    # a precondition that misbehaving code can break: exit 2 only on a run without violations, otherwise the stage is skipped
    if not ck.require(len(itps) == 4, "gate stage: could not generate the four molecules (%s)" % sorted(itps)):
        return
    if tier == "thorough":
        pick = asserted
    else:
        # always there: the shapes the independent seeds describe; then a seeded sample of the rest
        def shape(t):
            return [e["mol"] for e in t["top"]], [e["count"] for e in t["top"]], t["co"]["kind"], t["co"]["k"], list(t["co"]["res"])
        must = [t for t in asserted if shape(t)[2] == "none" and shape(t)[0] in (["d1", "c1", "c2"], ["c1", "d1", "c2"], ["c1", "c2", "d1"], ["c1", "c1", "d1"], ["c1", "d1"], ["c1", "c2"])
                and all(e["count"] == (2 if e["mol"] == "c1" else 1) for e in t["top"])]
        must += [t for t in asserted if shape(t)[0] in (["d1"], ["c1", "d2"], ["d1", "c1"], ["c2"]) and shape(t)[1] in ([1], [1, 1]) and shape(t)[2] != "none" and not t["co"]["ign"]]
        # an ignored molecule first / last / between the others, the disconnected one not ignored
        must += [t for t in asserted if t["co"]["ign"] == ["c2"] and all(e["count"] == 1 for e in t["top"])
                 and shape(t)[0] in (["c2", "d1"], ["d1", "c2"], ["c1", "c2", "d1"], ["c2", "c1", "d1"], ["c2", "c1"], ["c1", "c2", "c1"])]
        must += [t for t in asserted if t["co"]["ign"] == ["d2"] and all(e["count"] == 1 for e in t["top"]) and shape(t)[0] in (["d2", "d1"], ["d2", "c1", "d1"], ["c1", "d2", "d1"])]
        rest = [t for t in asserted if t not in must]
        pick = must + rng.sample(rest, min(len(rest), 200))
    for bad, n in c.pmap(_multi_gate_chunk, [(ch, itps, str(k)) for k, ch in enumerate(c.chunks(pick, c.NPROC))]):
        ck.evaluations += n
        ck.extra["multi_molecule_gate_runs"] = ck.extra.get("multi_molecule_gate_runs", 0) + n
        for t, got, wanted in bad:
            ck.violation({"kind": "multi-molecule gate", "topology": t["top"], "coordinates": t["co"], "molecules": {k: open(v).read() for k, v in itps.items()},
                          "expected": wanted, "observed": got},
                         what="gen_coords on [ molecules ] %s (c* connected, d* disconnected residue graph), %s: connectivity gate %s, expected %s" % (
                             " ".join("%s:%d" % (e["mol"], e["count"]) for e in t["top"]), _coord_text(t["co"]), got, wanted))
    for t in pick:
        if t["must_refuse"] and (t["top"][0]["mol"].startswith("c") or t["co"]["kind"] != "none"):
            ck.nontrivial.add("gate:" + json.dumps([t["top"], t["co"]]))
    ex = [t for t in pick if t["must_refuse"] and t["co"]["kind"] == "mc"]
    if ex:
        ck.sample({"gate with coordinates": {"molecules": ex[0]["top"], "coordinates": ex[0]["co"], "must_refuse": True}})


def _edges_are_written(links):
    """force fields in which every atom-level edge comes from a written interaction (so the .itp shows exactly the edges)"""
    for l in links:
        pairs = {frozenset((x["atoms"][j], x["atoms"][j + 1])) for x in l["inters"] if x["edge"] for j in range(len(x["atoms"]) - 1)}
        if any(not x["edge"] for x in l["inters"]):
            return False
        if any(frozenset((e["a"], e["b"])) not in pairs for e in l["xedges"]):
            return False
    return True


def check_missing(inp, exp, obs, links, full, blocks=None):
    """differences for one case; full = observation made through gen_params (warnings, joined pairs, written file)"""
    if "exception" in obs:
        return ["the code raised %s" % obs["exception"]], False
    diffs = list(obs.get("warning_problems", []))
    want = sorted(exp["missing"])
    if obs["missing"] != want:
        diffs.append("missing residue links: expected %s, %s %s" % (want, "warned" if full else "found", obs["missing"]))
    if "missing0" in obs and sorted(exp["missing0"]) != obs["missing0"]:
        diffs.append("missing residue links on the freshly mapped molecule (before link application): expected %s, found %s" % (sorted(exp["missing0"]), obs["missing0"]))
    if full:
        redges = sorted(sorted([e["a"], e["b"]]) for e in inp["edges"])
        for e in redges:
            j, w = e in obs["joined"], obs["missing"].count(e)
            if j and w:
                diffs.append("residues %s are joined by an atom-level edge AND reported missing" % e)
            if not j and not w:
                diffs.append("residues %s are neither joined by an atom-level edge nor reported missing" % e)
            if w > 1:
                diffs.append("residues %s reported missing %d times" % (e, w))
        for w in obs["missing"]:
            if w not in redges:
                diffs.append("warning for residues %s, which are not connected in the residue graph" % w)
    known = False
    if full and not diffs and _edges_are_written(links):
        # the written file must show the same: a residue pair has a written interaction across it iff it is not reported
        atoms, inters = lu.read_itp(obs["itp"])
        res_of = {rid: r + 1 for r, rid in enumerate(inp["resid"])}
        rid = {a["nr"]: res_of.get(a["resid"], 0) for a in atoms}
        bonded = set()
        for x in inters:
            for a, b in zip(x["atoms"][:-1], x["atoms"][1:]):
                if rid.get(a) != rid.get(b):
                    bonded.add((min(rid.get(a, 0), rid.get(b, 0)), max(rid.get(a, 0), rid.get(b, 0))))
        for e in sorted(sorted([e["a"], e["b"]]) for e in inp["edges"]):
            if (tuple(e) in bonded) == (e in obs["missing"]):
                diffs.append("written .itp: residues %s are %s by an interaction and %s" % (
                    e, "joined" if tuple(e) in bonded else "not joined", "reported missing" if e in obs["missing"] else "not reported"))
        # recogniser of the repaired finding F17: the written interactions are those TLC computed for the confused write-back
        known = bool(diffs) and bool(exp.get("verkeydiffers")) and lu.itp_interactions(inp, blocks, obs["itp"])[0] == lu.canon_ints(exp["verkey"])
    return diffs, known


def _chunk(arg):
    fam, items, ffs, wdname, mode = arg
    c.quiet()
    wd = c.workdir(PROP, "replay_%s" % wdname)
    bad, n, ngate = [], 0, 0
    for idx, case in items:
        inp, exp = case["input"], case["expected"]
        ff = ffs[inp["ff"] - 1]
        syntax = "itp" if fam == "E" else "multi" if "multi" in ff else ("ff", "mixed")[idx % 2]
        # links given by atom number (family X): a file of their own, read before or after the file with the other links
        xlinks = inp.get("xlinks") or []
        paths = lu.write_ff(wd, ff["blocks"], ff["links"], syntax, ff["multi"] if "multi" in ff else idx % 2, xlinks=xlinks, xfirst=(idx // 2) % 2 == 1)
        if mode == "processors":
            obs = lu.run_processors(inp, ff["blocks"], ff["links"], paths)
            diffs, known = check_missing(inp, exp, obs, ff["links"], False)
            if fam == "X" and not diffs:
                # the whole molecule: which atoms a number names, the interactions and edges the numbered links add, the attempts
                diffs = lu.compare(exp, obs, ff["blocks"], inp, with_calls=True, with_missing=False)
        else:
            obs = lu.run_gen_params(inp, ff["blocks"], ff["links"], paths, wd)
            diffs, known = check_missing(inp, exp, obs, ff["links"], True, ff["blocks"])
            # a reader of a topology joins atoms by bonds (constraints, virtual sites): the gate is asserted where links make bonds only
            bonds_only = _bonds_only(ff["links"], xlinks)
            if not diffs and "exception" not in obs and _edges_are_written(ff["links"]) and bonds_only:
                g = gate(obs["itp"], wd)
                ngate += 1
                want = "passed" if exp["connected"] else "raised"
                if g != want:
                    diffs.append("gen_coords on the generated molecule (residue graph %s): connectivity gate %s, expected %s" % (
                        "connected" if exp["connected"] else "disconnected", g, want))
        n += 1
        if diffs:
            bad.append((idx, syntax, mode, diffs[:6], known, {k: obs.get(k) for k in ("missing", "joined", "exception", "warning_problems")}))
    return bad, n, ngate


def replay_family(ck, fam, res, tier, rng, n_proc, n_gp):
    ffs = lu.parse_export(_HeaderX(res) if fam == "X" else c02._Header(res))[0]
    raws = c02._raw_cases(res)
    if not raws:
        raise c.MachineryError("family %s: TLC exported no case" % fam)
    if fam == "X":
        # what the family is there for must be in it: residue edges whose only atom-level connection is a link given by atom number
        only = sum(1 for r in raws if '\\"onlyexplicit\\":true' in r)
        if not only or only == len(raws):
            raise c.MachineryError("family X: %d of %d cases have a residue edge realised only by a link given by atom number" % (only, len(raws)))
        ck.extra["family_X_cases_with_an_edge_realised_only_by_a_numbered_link"] = only
    ck.extra.setdefault("exported_cases", {})[fam] = len(raws)
    idxs = list(range(len(raws)))
    pick_p = idxs if n_proc is None or len(idxs) <= n_proc else sorted(rng.sample(idxs, n_proc))
    pick_g = idxs if n_gp is None or len(idxs) <= n_gp else sorted(rng.sample(idxs, n_gp))
    dec = {i: c02._decode(raws[i]) for i in set(pick_p) | set(pick_g)}
    del raws
    parts = [(fam, [(i, dec[i]) for i in ch], ffs, "%s_p%d" % (fam, k), "processors") for k, ch in enumerate(c.chunks(pick_p, c.NPROC * 2))]
    parts += [(fam, [(i, dec[i]) for i in ch], ffs, "%s_g%d" % (fam, k), "gen_params") for k, ch in enumerate(c.chunks(pick_g, c.NPROC * 2))]
    for bad, n, ngate in c.pmap(_chunk, parts):
        ck.evaluations += n
        ck.extra["gate_runs"] = ck.extra.get("gate_runs", 0) + ngate
        for idx, syntax, mode, diffs, known, obs in bad:
            case = dec[idx]
            ck.violation({"kind": "S->I replay", "family": fam, "syntax": syntax, "mode": mode, "input": case["input"], "ff": ffs[case["input"]["ff"] - 1],
                          "expected": {k: case["expected"][k] for k in ("missing", "missing0", "connected", "edges", "removed", "verkeydiffers", "verkey", "ints")}, "observed": obs,
                          "differences": diffs},
                         what="family %s case %d (%s, %s): %s%s" % (fam, idx, syntax, mode, "; ".join(diffs[:3]), c02.F17_NOTE if known else ""))
    ck.replayed += len(dec)
    ck.extra["gen_params_runs"] = ck.extra.get("gen_params_runs", 0) + len(pick_g)
    for i, case in dec.items():
        e = case["expected"]
        if (e["missing"] and len(e["missing"]) < len(case["input"]["edges"])) or case.get("onlyexplicit"):
            ck.nontrivial.add("%s:%d" % (fam, i))
    if fam == "M":
        mixed = [d for d in dec.values() if d["expected"]["missing"] and len(d["expected"]["missing"]) < len(d["input"]["edges"])]
        if mixed:
            m = mixed[len(mixed) // 2]
            ck.sample({"S->I case (family M)": {"input": m["input"], "links": ffs[m["input"]["ff"] - 1]["links"], "expected_missing": m["expected"]["missing"],
                                                "residue_graph_connected": m["expected"]["connected"]}})


# ------------------------------------------------------------------ I -> S

def _record_chunk(arg):
    seeds, wdname = arg
    c.quiet()
    wd = c.workdir(PROP, "record_%s" % wdname)
    out = []
    for sd in seeds:
        inp = lu.random_case(random.Random(sd), explicit=True)       # 45 % of the cases carry links given by atom number
        paths = lu.write_ff(wd, inp["blocks"], inp["links"], "ff", sd % 2, tag="r", xlinks=inp.get("xlinks"), xfirst=sd % 3 == 0)
        obs = lu.run_gen_params(inp, inp["blocks"], inp["links"], paths, wd)
        if "exception" in obs:
            o = {"exception": obs["exception"], "ints": [], "edges": [], "removed": [], "calls": [], "attr": [], "missing": []}
        else:
            o = {"exception": "; ".join(obs["warning_problems"]), "ints": obs["ints"], "edges": obs["edges"], "removed": obs["removed"], "calls": obs["calls"],
                 "missing": obs["missing"],
                 "attr": [{"at": [int(x) for x in k.split(",")], "attrs": {kk: vv for kk, vv in v.items() if kk != "resid"}} for k, v in sorted(obs["attr"].items())]}
        out.append({"input": inp, "obs": o})
    return out


def run(tier):
    ck = c.Check(PROP, tier)
    c02.PROP = PROP
    ck.rule = ("S->I: family M = 10 force fields (no link, chain links that leave pairs with B unlinked, star links, an [ edges ]-only link, a bond that "
               "makes no edge, atom removal after linking, removal of the linking atom) x all connected residue graphs on 1-4 residues x names {A,B}^n, "
               "family N = 5 of them x graphs on <= 3 residues (all-A graphs with <= 4 edges on 4) x every non-identity assignment of residue ids to node keys, "
               "family X = 4 force fields x graphs on <= 3 residues (trees on 4) x assignments of residue ids x 6-7 sets of links given by atom number "
               "([ molmeta ] by_atom_id true: a bond for every / one residue edge, an angle, a bond between residues that are not neighbours, two kinds, inside the first residue), "
               "plus families B (link features) and E (dangling .itp); a case is non-trivial if some but not all residue edges are missing. "
               "I->S: seeded random cases with 5-7 residues through gen_params, warnings parsed; distinct = record with an applied link")
    ck.assumptions = ["the gate is asserted for disconnection at residue level only; atoms disconnected inside one residue are accepted by design",
                      "the cross-check against the written .itp is made for force fields whose edges all come from written interactions",
                      "gen_coords is stopped right after the connectivity gate (load_build_files replaced by a sentinel)",
                      "multi-molecule topologies are composed of four generated molecules (two connected, two disconnected by TLC's verdict)"]
    sd = c.seed()
    rng = random.Random(sd + 10)
    ck.stage("TLC: models, sensitivity runs, exports")
    jobs = [("export_M", "MC_Links", "Lk_export_M.cfg", 4, {}), ("export_B", "MC_Links", "Lk_export_B.cfg", 3, {}), ("export_E", "MC_Links", "Lk_export_E.cfg", 2, {}),
            ("export_N", "MC_Links", "Lk_export_N.cfg", 3, {}), ("modelN", "MC_Links", "Lk_small_N.cfg", 2, {}),
            ("export_I", "MC_Links", "Lk_export_I.cfg", 1, {}), ("modelI", "MC_Links", "Lk_small_I.cfg", 1, {}),
            ("export_X", "MC_LinksX", "Lk_export_X.cfg" if tier == "quick" else "Lk_export_Xfull.cfg", 3, {}),
            ("modelX", "MC_LinksX", "Lk_small_X.cfg" if tier == "quick" else "Lk_small_Xfull.cfg", 3, {"coverage": True}),
            ("dev_MissingBeforeExplicit", "MC_LinksX", "Lk_dev_MissingBeforeExplicit.cfg", 1, {"check": False}),
            ("dev_SkipSameItp", "MC_Links", "Lk_dev_SkipSameItp.cfg", 1, {"check": False}),
            ("dev_OrderedPairs", "MC_Links", "Lk_dev_OrderedPairs.cfg", 1, {"check": False}),
            ("gate", "MC_Links", "Lk_gate.cfg", 1, {}), ("dev_GateOnce", "MC_Links", "Lk_dev_GateOnce.cfg", 1, {"check": False}),
            ("dev_GateBuildOnly", "MC_Links", "Lk_dev_GateBuildOnly.cfg", 1, {"check": False}),
            ("dev_GateStopsAtIgnored", "MC_Links", "Lk_dev_GateStopsAtIgnored.cfg", 1, {"check": False}), ("dev_MissingCache", "MC_Links", "Lk_dev_MissingCache.cfg", 1, {"check": False}),
            ("missing", "MC_Links", "Lk_missing.cfg", 2, {}), ("modelM", "MC_Links", "Lk_small_M.cfg", 3, {}),
            ("devfams", "MC_Links", "Lk_devfams.cfg", 1, {"coverage": True}),
            ("dev_Degree", "MC_Links", "Lk_dev_Degree.cfg", 1, {"check": False}), ("dev_missing", "MC_Links", "Lk_missing_dev.cfg", 1, {"check": False})]
    if tier == "thorough":
        jobs.append(("model", "MC_Links", "Lk_small.cfg", 8, {}))
    results = lu.run_jobs(jobs)
    ck.model_must_hold(results["missing"], "MissingIsExpected/BondXorMissing over arbitrary inter-residue atom edges and removed atoms")
    ck.model_must_hold(results["modelM"], "FinalIsExpected/MissingIsExpected/BondXorMissing on family M (<= 3 residues)")
    if "model" in results:
        ck.model_must_hold(results["model"], "I-layer |= P-layer on the small instance")
    ck.model_must_hold(results["devfams"], "sensitivity families without deviation")
    if not results["devfams"].coverage().get("FindMissing"):
        raise c.MachineryError("action FindMissing never taken")
    ck.model_must_hold(results["modelN"], "MissingIsExpected/BondXorMissing with node keys that are a permutation of the residue ids")
    ck.model_must_refute(results["dev_OrderedPairs"], "MissingIsExpected", "independent seed C10-2: joined residue pairs compared as ordered pairs")
    ck.model_must_hold(results["gate"], "GateIsExpected: refuse whenever something is generated for a disconnected, not ignored molecule wherever it stands, pass connected ones (3,000 cases)")
    ck.model_must_hold(results["modelI"], "MissingIsExpected/BondXorMissing/FinalIsExpected with consecutive copies of a two-residue from_itp block")
    ck.model_must_hold(results["modelX"], "FinalIsExpected/MissingIsExpected/BondXorMissing with links given by atom number, applied after all other links")
    if not results["modelX"].coverage().get("ApplyExplicit"):
        raise c.MachineryError("action ApplyExplicit never taken")
    ck.model_must_refute(results["dev_MissingBeforeExplicit"], "BondXorMissing", "independent seed7-C10-2: the missing links are collected before the links given by atom number are applied")
    ck.model_must_refute(results["dev_SkipSameItp"], "MissingIsExpected", "independent seed5-C10-1: residue pairs with the same from_itp value are not examined")
    ck.model_must_refute(results["dev_GateStopsAtIgnored"], "GateIsExpected", "independent seed5-C10-2: the gate pass ends at the first ignored molecule")
    ck.model_must_refute(results["dev_GateBuildOnly"], "GateIsExpected", "independent seed3-C10-2: molecules without a residue to build are exempt")
    ck.model_must_refute(results["dev_MissingCache"], "MissingIsExpected", "independent seed3-C10-1: candidate atoms remembered from the first evaluation")
    ck.model_must_refute(results["dev_GateOnce"], "GateIsExpected", "independent seed2-C10-1: only the first molecule of the list is inspected")
    ck.model_must_refute(results["dev_Degree"], "MissingIsExpected", "degree filter compares the wrong way (m12), after link application")
    ck.model_must_refute(results["dev_missing"], "MissingIsExpected", "degree filter compares the wrong way (m12), arbitrary edge sets")
    quick = tier == "quick"
    for fam, n_proc, n_gp in (("M", 2500 if quick else None, 260 if quick else 3000), ("N", 1200 if quick else None, 200 if quick else 2000), ("I", None, None), ("X", 800 if quick else None, 220 if quick else 2500), ("B", 500 if quick else None, 80 if quick else 800),
                              ("E", 200 if quick else None, 60 if quick else 680)):
        ck.stage("replay family %s" % fam)
        res = results["export_" + fam]
        ck.model_must_hold(res, "export %s" % fam)
        replay_family(ck, fam, res, tier, rng, n_proc, n_gp)
        res.out = ""
    ck.stage("gate over multi-molecule topologies and supplied coordinates")
    multi_gate_stage(ck, results["gate"], tier, rng)
    ck.stage("I->S: random cases through gen_params")
    nrec = 120 if quick else 1200
    seeds = [sd * 100003 + 50000 + k for k in range(nrec)]
    recs = []
    for part in c.pmap(_record_chunk, [(ch, str(k)) for k, ch in enumerate(c.chunks(seeds, c.NPROC * 2))]):
        recs += part
    c02.trace_stage(ck, recs, "random_gen_params", lambda r: "%d residues, %d residue edges, warnings %s" % (r["input"]["n"], len(r["input"]["edges"]), r["obs"]["missing"]))
    ck.sample({"I->S record": {"residues": recs[0]["input"]["rattr"], "edges": recs[0]["input"]["edges"], "warned": recs[0]["obs"]["missing"]}})
    ck.stage("binding demonstration")
    good = [r for r in recs if r["obs"]["missing"] and not r["obs"]["exception"]]
    ck.require(bool(good), "binding demonstration: no record with a missing-link warning")
    rec = json.loads(json.dumps(good[0])) if good else None
    base_rej, base_skip = c02.validate_records(ck, [rec], "binding_ok", expect_reject=True) if rec else ({0: "-"}, set())
    if not base_rej and not base_skip:
        rec["obs"]["missing"] = rec["obs"]["missing"][1:]
        rej, _ = c02.validate_records(ck, [rec], "binding_corrupt", expect_reject=True)
        if rej.get(0) != "missing":
            raise c.MachineryError("binding demonstration failed: a record with one warning deleted was not rejected for its missing list (%s)" % rej)
        ck.extra["binding_demo"] = "record with one missing-link warning deleted rejected (component: missing)"
    ck.exhaustive = True
    return ck.finish()


def replay_case(path):
    doc = json.loads(open(path).read())
    case = doc["case"]
    c.quiet()
    if case["kind"] == "multi-molecule gate":
        wd = c.workdir(PROP, "replay_gate")
        itps = {}
        for k, txt in case["molecules"].items():
            (wd / ("%s.itp" % k)).write_text(txt)
            itps[k] = str(wd / ("%s.itp" % k))
        mols = [(e["mol"], e["count"]) for e in case["topology"]]
        got = gate_top([itps[m] for m in sorted({m for m, _ in mols})], mols, wd, case.get("coordinates"))
        print("gate %s, expected %s" % (got, case["expected"]))
        return 0 if got == case["expected"] else 1
    if case["kind"] == "S->I replay":
        bad, n, _ = _chunk((case["family"], [(0, {"input": dict(case["input"], ff=1), "expected": case["expected"]})], [case["ff"]], "one", case["mode"]))
        print("\n".join(bad[0][3]) if bad else "matches the expectation now")
        return 1 if bad else 0
    ck = c.Check(PROP, "quick")
    c02.PROP = PROP
    rejected, skipped = c02.validate_records(ck, [case["record"]], "replay_rec", expect_reject=True)
    print("stored record: %s" % ("rejected (%s)" % rejected[0] if rejected else "accepted"))
    return 1 if rejected else 0


replay = replay_case
