"""C15 - one centred template and size per distinct residue; user values win.

spec/TemplatesLib.tla  labelled residue graphs, Iso (P) / Canon (I), rational vectors, centring, polynomial virtual sites
spec/TpGroup.tla       all residue pairs (<= 4 atoms, all connected bond graphs, relisted, same/other resname, joined/separate)
spec/Templates.tla     I-layer ParseVolume / ParseTemplate / Finalize / Gen over the tables vols, tmpl, r2h; P-layer Tagged,
                       UserTemplateWins, UserVolumeWins, UserTemplateUnchanged, UserSticks; the key function at its two call
                       sites (KeySitesAgree) and the processor-wide memory of GenerateTemplates (GeneratedOnce,
                       OneTemplatePerKey, SizeBelongs: one template and size per key in the WHOLE system)
spec/TpVS.tla          kinds 2, 3, n, 3out as rationals on lattice inputs: code shape = GROMACS formula, exact equivariance
S->I : the three exports rendered as real .top / .bld files and run through Topology -> build file -> GenerateTemplates
       (grouping, precedence) or parsed .top + construct_vs (virtual sites).
I->S : seeded random systems beyond the bound; a recorder around BuildDirector.finalize_section / finalize,
       GenerateTemplates.run_molecule and optimize_geometry logs one event per I-layer action with the projected tables and the
       booleans of the numeric monitor (centre of geometry, size > 0, non-linear virtual sites, equivariance, optimiser targets);
       TpTrace.tla validates the traces and requires the booleans.
"""
import json
import random
from pathlib import Path

import numpy as np

from .. import common as c
from .. import geom_monitor as gm
from .. import tmpl_util as tu

H = 0.25
TOL = 1e-9
SIG_VOL = "user-volume-lost-for-other-variant"
TOLER = {"bonds": 0.05, "constraints": 0.05, "angles": 5.0, "dihedrals": 5.0}


# ------------------------------------------------------------------------------------------------ helpers

def res_from_graph(nm, ed, rn, blen=0.3):
    return {"resname": rn, "names": list(nm), "atypes": ["P"] * len(nm), "bonds": [[nm[i - 1], nm[j - 1], blen] for i, j in ed],
            "constraints": [], "angles": [], "impropers": [], "vs": []}


def res_from_content(ct, blen=0.3):
    """residue definition of an exported content: edges are bonds; vsd = virtual-site definitions (indices into nm, rational parameters)"""
    res = res_from_graph(ct["nm"], ct["ed"], ct["rn"], blen)
    for d in ct.get("vsd") or []:
        sec, func = SECTION[d["kind"]]
        res["atypes"][d["site"] - 1] = "VS"
        res["vs"].append([sec, [ct["nm"][d["site"] - 1]] + [ct["nm"][i - 1] for i in d["from"]], [func] + [p[0] / p[1] for p in d["p"]]])
    if ct.get("settles"):
        res["settles"] = [ct["nm"][0], 0.1, 0.16]
    return res


def vs_state(ct, t):
    """where the virtual sites of template t are: "none" (no sites), "constructed" (every site within 1e-6 nm of the GROMACS construction
    from its defining atoms in the same template, independent formulas of geom_monitor), "initial" otherwise"""
    if not ct.get("vsd"):
        return "none"
    for d in ct["vsd"]:
        sec, func = SECTION[d["kind"]]
        try:
            exp = gm.construct(sec, func, [np.asarray(t[ct["nm"][i - 1]], float) for i in d["from"]], [p[0] / p[1] for p in d["p"]])
            if not np.abs(exp - np.asarray(t[ct["nm"][d["site"] - 1]], float)).max() <= 1e-6:
                return "initial"
        except Exception:
            return "initial"
    return "constructed"


def node_hashes(top):
    """[[hash of residue i of molecule m]]"""
    return [[str(mm.nodes[n].get("template")) for n in mm.nodes] for mm in top.molecules]


def shared_templates(top):
    t = {}
    for mm in top.molecules:
        for k, v in getattr(mm, "templates", {}).items():
            t[str(k)] = v
    return t


def held_view(top, uservals, user_coords, radii):
    """What every residue is actually built from, molecule by molecule (the tables above merge the molecules):
    held[m][i]   version of the template molecule m ITSELF holds under the key of its residue i: -1 none, 0 the user's coordinates,
                 n = the n-th distinct other coordinate set met under that key, molecules taken in order (one template per key in the
                 whole system <=> every generated one is version 1);
    sizeok[m][i] a size that is not a user value is the size of exactly that template (independent formula tmpl_util.template_size).
    user_coords(m, i, names) -> list of candidate centred user coordinates in the order of `names` (every [ template ] with these atom
    names); radii(m, i, names) -> radius per atom"""
    seen, held, sizeok = {}, [], []
    for m, mm in enumerate(top.molecules):
        own = getattr(mm, "templates", None) or {}
        hrow, srow = [], []
        for i, nd in enumerate(mm.nodes):
            h = mm.nodes[nd].get("template")
            t = own.get(h)
            if t is None:
                hrow.append(-1)
                srow.append(False)
                continue
            names = sorted(t)
            arr = np.array([np.asarray(t[a], float) for a in names])
            if any(u.shape == arr.shape and np.abs(arr - u).max() <= TOL for u in user_coords(m, i, names)):
                ver = 0
            else:
                known = seen.setdefault(str(h), [])
                idx = next((j for j, a in enumerate(known) if a.shape == arr.shape and np.array_equal(a, arr)), None)
                if idx is None:
                    known.append(arr)
                    idx = len(known) - 1
                ver = idx + 1
            hrow.append(ver)
            vol = top.volumes.get(h)
            if vol is None or not np.isfinite(vol):
                srow.append(False)
            elif float(vol) in uservals:
                srow.append(True)
            else:
                try:
                    size, conclusive = tu.template_size(arr, radii(m, i, names))
                    srow.append(bool(not conclusive or abs(size - float(vol)) <= 1e-9))
                except Exception:
                    srow.append(False)
        held.append(hrow)
        sizeok.append(srow)
    return held, sizeok


# ------------------------------------------------------------------------------------------------ S -> I : grouping

def run_group_case(case, wd):
    X = res_from_graph(case["x"]["nm"], case["x"]["ed"], case["rnx"])
    Y = res_from_graph(case["y"]["nm"], case["y"]["ed"], case["rny"])
    if case["joined"]:
        mts = [tu.molecule_from_residues("MJ", [X, Y], [(0, 1)])]
        mols = [["MJ", 1]]
    else:
        mts = [tu.molecule_from_residues("MX", [X], []), tu.molecule_from_residues("MY", [Y], [])]
        mols = [["MX", 1], ["MY", 1]]
    wd.mkdir(parents=True, exist_ok=True)
    (wd / "sys.top").write_text(tu.render_top({"atomtypes": tu.ATOMTYPES, "moltypes": mts, "molecules": mols}))
    try:
        top = tu.load_topology(wd / "sys.top")
        tu.generate_templates(top)
        hs = [h for m in node_hashes(top) for h in m]
        tm = shared_templates(top)
        vols = top.volumes
        held, sizeok = held_view(top, set(), lambda m, i, names: [], lambda m, i, names: [tu.ATOMTYPES["P"]] * len(names))
    except Exception as exc:
        return "exception", "%s: %s" % (type(exc).__name__, exc)
    if len(hs) != 2:
        return "differs", "expected two residues, found %d" % len(hs)
    # Templates.tla OneTemplatePerKey / SizeBelongs: no build file here, so every residue - in whichever molecule - is backed by the
    # first and only generated template of its key, and the size of the key is the size of that template
    if [v for row in held for v in row] != [1, 1]:
        return "differs", "residues %s%s and %s%s (%s): versions of the template held by the residue's own molecule %s, specification [1, 1] (one template per key in the whole system)" % (
            case["rnx"], case["x"], case["rny"], case["y"], "one molecule" if case["joined"] else "two moleculetypes", held)
    if not all(v for row in sizeok for v in row):
        return "differs", "residues %s%s and %s%s: the size of a key is not the size of the template the residue is built from: %s" % (
            case["rnx"], case["x"], case["rny"], case["y"], sizeok)
    same = hs[0] == hs[1]
    if same != case["same"]:
        return "differs", "residues %s%s and %s%s: the code gives them %s template key, the specification says %s" % (
            case["rnx"], case["x"], case["rny"], case["y"], "ONE" if same else "DIFFERENT", "one (isomorphic)" if case["same"] else "different keys")
    for h, names in zip(hs, (case["xnames"], case["ynames"])):
        if h not in tm or sorted(tm[h]) != sorted(names):
            return "differs", "template of key %s holds names %s, the residue has %s" % (h[:8], sorted(tm.get(h, {})), sorted(names))
        cog = np.mean([np.asarray(v, float) for v in tm[h].values()], axis=0)
        if np.abs(cog).max() > TOL:
            return "differs", "template %s is not centred: centre of geometry %s" % (h[:8], cog.tolist())
        if h not in vols or not (float(vols[h]) > 0):
            return "differs", "size of key %s is %s" % (h[:8], vols.get(h))
    return "ok", ""


# ------------------------------------------------------------------------------------------------ S -> I : precedence

def render_prec_case(case, wd):
    content = case["content"]
    mts, mols = [], []
    for m, keys in enumerate(case["sys"]):
        if m and keys == case["sys"][m - 1]:
            mols[-1][1] += 1          # the same molecule again: a second INSTANCE of one moleculetype (otherwise one moleculetype each)
            continue
        residues = [res_from_content(content[k]) for k in keys]
        mts.append(tu.molecule_from_residues("M%d" % (m + 1), residues, [(i, i + 1) for i in range(len(keys) - 1)]))
        mols.append(["M%d" % (m + 1), 1])
    entries = []
    for b in case["bld"]:
        if b["e"] == "T":
            ct = content[b["k"]]
            entries.append(("template", ct["rn"], [[n, "P"] + [x * H for x in u] for n, u in zip(ct["nm"], ct["u"])],
                            [[ct["nm"][i - 1], ct["nm"][j - 1]] for i, j in ct["ed"]]))
        else:
            entries.append(("volumes", [[b["rn"], b["v"] / 1000.0]]))
    wd.mkdir(parents=True, exist_ok=True)
    (wd / "sys.top").write_text(tu.render_top({"atomtypes": tu.ATOMTYPES, "moltypes": mts, "molecules": mols}))
    if case.get("nobld"):
        return wd / "sys.top", None       # no build file at all: nothing is attached to the molecules before GenerateTemplates
    (wd / "sys.bld").write_text(tu.render_bld(entries))
    return wd / "sys.top", wd / "sys.bld"


def project_prec(case, top):
    """real tables -> abstract state of Templates.tla for the keys used by the system (same projection in both directions)"""
    content = case["content"]
    hs = node_hashes(top)
    key_hash, problems = {}, []
    for keys, hrow in zip(case["sys"], hs):
        if len(keys) != len(hrow):
            problems.append("residue count differs")
        for k, h in zip(keys, hrow):
            if key_hash.setdefault(k, h) != h:
                problems.append("content %s carries two template keys" % k)
    if len(set(key_hash.values())) != len(key_hash):
        problems.append("different contents share a template key: %s" % key_hash)
    tm = shared_templates(top)
    uservals = {b["v"] / 1000.0 for b in case["bld"] if b["e"] == "V"}
    out = {}
    for k, h in key_hash.items():
        ct = content[k]
        t = tm.get(h)
        n = len(ct["nm"])
        if t is None or sorted(t) != sorted(ct["nm"]):
            out[k] = {"tsrc": "missing", "vsrc": "?", "v": 0, "vs": "?"}
            continue
        u = np.array(ct["u"], float) * H
        user = u - u.mean(axis=0)
        tv = np.array([np.asarray(t[a], float) for a in ct["nm"]])
        tsrc = "user" if np.abs(tv - user).max() <= TOL else "generated"
        if np.abs(tv.mean(axis=0)).max() > TOL:
            tsrc = "not-centred"
        vol = top.volumes.get(h)
        if vol is None or not np.isfinite(vol) or not vol > 0:
            vsrc, v = "bad(%s)" % vol, 0
        elif float(vol) in uservals:
            vsrc, v = "user", int(round(float(vol) * 1000))
        else:
            vsrc, v = "computed", 0
        out[k] = {"tsrc": tsrc, "vsrc": vsrc, "v": v, "vs": "user" if tsrc == "user" else vs_state(ct, t)}

    def user_coords(m, i, names):
        ct = content[case["sys"][m][i]]
        if sorted(ct["nm"]) != list(names):
            return []
        u = np.array(ct["u"], float) * H
        u = u - u.mean(axis=0)
        return [np.array([u[ct["nm"].index(a)] for a in names])]
    if len(top.molecules) == len(case["sys"]):
        def radii(m, i, names):
            ct = content[case["sys"][m][i]]
            sites = {ct["nm"][d["site"] - 1] for d in ct.get("vsd") or []}
            return [tu.ATOMTYPES["VS" if a in sites else "P"] for a in names]
        held, sizeok = held_view(top, uservals, user_coords, radii)
        out["#held"], out["#sizeok"] = held, sizeok
    return out, problems


def run_prec_case(case, wd):
    """-> (verdict, detail, observed projection)"""
    top_p, bld_p = render_prec_case(case, wd)
    try:
        top = tu.load_topology(top_p, [bld_p] if bld_p else [])
        tu.generate_templates(top, skip_filter=bool(case.get("skip_filter")))
        obs, problems = project_prec(case, top)
    except Exception as exc:
        return "exception", "%s: %s" % (type(exc).__name__, exc), None
    if problems:
        return "differs", "; ".join(problems), obs
    return "ok", "", obs


def expected_proj(case):
    exp = {k: {"tsrc": v["tsrc"], "vsrc": v["vsrc"], "v": v["v"], "vs": v["vs"]} for k, v in case["keys"].items()}
    exp["#held"] = [[int(x) for x in row] for row in case["held"]]
    exp["#sizeok"] = [[bool(x) for x in row] for row in case["sizeok"]]
    return exp


def case_key(case):
    return json.dumps([case["sys"], [[b["e"], b["k"], b["rn"]] for b in case["bld"]], bool(case.get("nobld"))])


def may_skip_filter(case):
    """-skip_filter refuses (IOError, documented) a system in which one residue name stands for two contents"""
    used = {k for m in case["sys"] for k in m}
    rns = [case["content"][k]["rn"] for k in used]
    return len(rns) == len(set(rns))


# ------------------------------------------------------------------------------------------------ S -> I : virtual sites

SECTION = {"2": ("virtual_sites2", "1"), "3": ("virtual_sites3", "1"), "3out": ("virtual_sites3", "4"), "n": ("virtual_sitesn", "1")}


def run_vs_chunk(arg):
    """cases -> one .top (one residue per case: constructing atoms + site), parsed by the real reader; construct_vs on lattice positions"""
    idx, cases, wd = arg
    wd = Path(wd)
    wd.mkdir(parents=True, exist_ok=True)
    atoms, vs, layout = [], [], []
    for ci, case in zip(idx, cases):
        k = len(case["x"])
        first = len(atoms) + 1
        for j in range(k):
            atoms.append(["A%d" % j, len(layout) + 1, "RV", "P", 72.0])
        atoms.append(["S", len(layout) + 1, "RV", "VS", 0.0])
        site = first + k
        sec, func = SECTION[case["kind"]]
        params = [func] + ([] if case["kind"] == "n" else [p[0] / p[1] for p in case["p"]])
        vs.append([sec, [site] + list(range(first, first + k)), params])
        layout.append((ci, first, k, site, sec))
    bonds = [[a, a + 1, 0.3] for a in range(1, len(atoms))]
    mt = {"name": "MV", "atoms": atoms, "bonds": bonds, "vs": vs}
    (wd / "vs.top").write_text(tu.render_top({"atomtypes": tu.ATOMTYPES, "moltypes": [mt], "molecules": [["MV", 1]]}))
    out = []
    try:
        from polyply.src.topology import Topology
        from polyply.src import virtual_site_builder as vsb
        construct = tu.need(vsb, "construct_vs")
        top = Topology.from_gmx_topfile(name="verif", path=str(wd / "vs.top"))
        top.preprocess()
        mol = top.molecules[0].molecule
        by_site = {}
        for sec in ("virtual_sites2", "virtual_sites3", "virtual_sites4", "virtual_sitesn"):
            for inter in mol.interactions.get(sec, []):
                by_site[inter.atoms[0]] = (sec, inter)
    except Exception as exc:
        return [(ci, "exception", "reading the topology: %s: %s" % (type(exc).__name__, exc)) for ci in idx]
    for (ci, first, k, site, sec), case in zip(layout, cases):
        if (site - 1) not in by_site or by_site[site - 1][0] != sec:
            out.append((ci, "differs", "virtual site %d not read as %s" % (site, sec)))
            continue
        inter = by_site[site - 1][1]
        pos = {a: np.array(case["x"][j], float) for j, a in enumerate(range(first - 1, first - 1 + k))}
        pos[site - 1] = np.zeros(3)
        try:
            got = np.asarray(construct(sec, inter, pos), float)
        except Exception as exc:
            out.append((ci, "exception", "construct_vs: %s: %s" % (type(exc).__name__, exc)))
            continue
        exp = np.array(case["num"], float) / case["den"]      # lattice unit = 1 nm here (the 3out cross product is quadratic in the unit)
        if list(inter.atoms[1:]) != list(range(first - 1, first - 1 + k)):
            out.append((ci, "differs", "constructing atoms read as %s" % (list(inter.atoms),)))
        elif not np.all(np.isfinite(got)) or np.abs(got - exp).max() > TOL:
            out.append((ci, "differs", "kind %s params %s atoms %s: code %s, specification %s" % (case["kind"], case["p"], case["x"], got.tolist(), exp.tolist())))
        else:
            out.append((ci, "ok", ""))
    return out


# ------------------------------------------------------------------------------------------------ generic replay plumbing

def _chunk_worker(arg):
    kind, idx, cases, wd = arg
    out = []
    for i, case in zip(idx, cases):
        d = Path(wd) / ("c%d" % i)
        if kind == "group":
            out.append((i,) + run_group_case(case, d) + (None,))
        else:
            out.append((i,) + run_prec_case(case, d))
    return out


def replay_cases(ck, kind, cases, code_cases=None):
    wd = c.workdir("C15", "replay_" + kind)
    idx = list(range(len(cases)))
    if kind == "vs":
        parts = [(ch, [cases[i] for i in ch], str(wd / ("p%d" % n))) for n, ch in enumerate(c.chunks(idx, c.NPROC * 2))]
        results = [r + (None,) for part in c.pmap(run_vs_chunk, parts) for r in part]
    else:
        parts = [(kind, ch, [cases[i] for i in ch], str(wd)) for ch in c.chunks(idx, c.NPROC * 3)]
        results = [r for part in c.pmap(_chunk_worker, parts) for r in part]
    for i, verdict, detail, obs in results:
        ck.evaluations += 1
        case = cases[i]
        if kind == "prec" and verdict == "ok":
            exp = expected_proj(case)
            if obs != exp:
                asc = code_cases.get(case_key(case)) if code_cases else None
                what = "system %s, %s%s: tables of the code %s, specification %s" % (
                    case["sys"], "NO build file" if case.get("nobld") else "build file %s" % [(b["e"], b["k"] or b["rn"], b["v"]) for b in case["bld"]],
                    ", -skip_filter" if case.get("skip_filter") else "", json.dumps(obs, sort_keys=True), json.dumps(exp, sort_keys=True))
                if asc is not None and obs == expected_proj(asc):
                    # diagnostic only: the result equals the I-layer with DevVolLost, i.e. the repaired defect F21 is back
                    what += "  [= behaviour of the repaired defect F21 %s]" % SIG_VOL
                ck.violation({"kind": "S->I prec", "case": case}, what=what)
        elif verdict != "ok":
            ck.violation({"kind": "S->I " + kind, "case": case}, what="%s replay: %s" % (kind, detail))
    ck.replayed += len(cases)
    ck.actions["replay_" + kind] = ck.actions.get("replay_" + kind, 0) + len(cases)


# ------------------------------------------------------------------------------------------------ I -> S : recording

class TRecorder:
    """one trace per run; see TpTrace.tla for the event format"""

    def __init__(self, bld_entries, node_types):
        from polyply.src import build_file_parser as bfp
        from polyply.src import generate_templates as gt
        self.bfp, self.gt = bfp, gt
        self.entries = bld_entries            # [{"e": "T", "t": type id, "names": [...], "coords": [[...]]} | {"e": "V", "rn":, "v": int}]
        self.node_types = node_types          # [[type id per residue] per molecule instance]
        self.events, self.hmap, self.opt_calls = [], [], []
        self.t_seen = 0
        self.t_keys = set()
        self.mol = 0
        self.o_fs = tu.need(bfp.BuildDirector, "finalize_section")
        self.o_fin = tu.need(bfp.BuildDirector, "finalize")
        self.o_run = tu.need(gt.GenerateTemplates, "run_molecule")
        self.o_opt = tu.need(gt, "optimize_geometry")
        rec = self

        def finalize_section(self_, previous_section, ended_section):
            r = rec.o_fs(self_, previous_section, ended_section)
            if previous_section == ["template", "bonds"]:
                tents = [e for e in rec.entries if e["e"] == "T"]
                fresh = [k for k in self_.templates if str(k) not in rec.t_keys]
                if rec.t_seen < len(tents) and len(fresh) == 1:
                    rec.hmap.append([str(fresh[0]), tents[rec.t_seen]["t"]])
                rec.t_keys.update(str(k) for k in self_.templates)
                rec.t_seen += 1
                rec.log("T", self_.topology.volumes, self_.templates)
            elif previous_section == ["volumes"]:
                rec.log("V", self_.topology.volumes, self_.templates)
            return r

        def finalize(self_, lineno=0):
            r = rec.o_fin(self_, lineno)
            rec.director_templates = self_.templates
            rec.log("F", self_.topology.volumes, self_.templates)
            return r

        def optimize_geometry(block, coords, inter_types=(), *a, **kw):
            success, out = rec.o_opt(block, coords, inter_types, *a, **kw)
            rec.opt_calls.append({"block": block, "types": list(inter_types), "success": bool(success),
                                  "coords": {k: np.array(v, float) for k, v in out.items()}})
            return success, out

        def run_molecule(self_, meta_molecule):
            # everything the processor or the molecule holds before the call, BY OBJECT: a key that is generated a second time
            # (new coordinates under a key that had some) is a generation event like the first one
            before = {str(k): v for k, v in (getattr(meta_molecule, "templates", {}) or {}).items()}
            before.update({str(k): v for k, v in self_.templates.items()})
            r = rec.o_run(self_, meta_molecule)
            rec.mol += 1
            tags = [str(meta_molecule.nodes[n].get("template")) for n in meta_molecule.nodes]
            types = rec.node_types[rec.mol - 1] if rec.mol <= len(rec.node_types) else []
            for h, t in zip(tags, types):
                if [h, t] not in rec.hmap:
                    rec.hmap.append([h, t])
            gen = [rec.monitor(str(h), self_.templates[h], self_.volumes.get(h)) for h in self_.templates
                   if str(h) not in before or self_.templates[h] is not before[str(h)]]
            rec.log("G", self_.volumes, self_.templates, mol=rec.mol, tags=tags, gen=gen)
            return r
        bfp.BuildDirector.finalize_section = finalize_section
        bfp.BuildDirector.finalize = finalize
        gt.GenerateTemplates.run_molecule = run_molecule
        gt.optimize_geometry = optimize_geometry

    def close(self):
        self.bfp.BuildDirector.finalize_section = self.o_fs
        self.bfp.BuildDirector.finalize = self.o_fin
        self.gt.GenerateTemplates.run_molecule = self.o_run
        self.gt.optimize_geometry = self.o_opt

    # ---- projection of the real tables
    def log(self, op, volumes, templates, **extra):
        uservals = {e["v"] / 1000.0 for e in self.entries if e["e"] == "V"}
        vols = []
        for name, val in volumes.items():
            ok = bool(np.isfinite(val) and val > 0)
            if float(val) in uservals:
                vols.append([str(name), "user", int(round(float(val) * 1000)), ok])
            else:
                vols.append([str(name), "computed", 0, ok])
        tm = []
        for h, t in templates.items():
            src = "generated"
            for e in self.entries:
                if e["e"] == "T" and sorted(e["names"]) == sorted(t):
                    u = np.array(e["coords"], float)
                    user = u - u.mean(axis=0)
                    if np.abs(np.array([np.asarray(t[n], float) for n in e["names"]]) - user).max() <= TOL:
                        src = "user"
            tm.append([str(h), src])
        ev = {"op": op, "vols": vols, "tmpl": tm, "hmap": [list(p) for p in self.hmap], "held": [], "sizeok": []}
        ev.update(extra)
        if op != "G":
            ev.update({"mol": 0, "tags": [], "gen": []})
        self.events.append(ev)

    def log_end(self, top, case):
        """event "E": what every residue is built from in its own molecule, after the whole system has been processed"""
        uservals = {e["v"] / 1000.0 for e in self.entries if e["e"] == "V"}
        tents = [e for e in self.entries if e["e"] == "T"]

        def user_coords(m, i, names):
            out = []
            for e in tents:
                if sorted(e["names"]) == list(names):
                    u = np.array(e["coords"], float)
                    u = u - u.mean(axis=0)
                    out.append(np.array([u[e["names"].index(a)] for a in names]))
            return out

        def radii(m, i, names):
            res = case["resdefs"][case["sys"][m][i]]
            return [tu.ATOMTYPES[res["atypes"][res["names"].index(a)]] for a in names]
        held, sizeok = held_view(top, uservals, user_coords, radii)
        last = self.events[-1] if self.events else {"vols": [], "tmpl": [], "hmap": []}
        self.events.append({"op": "E", "vols": last["vols"], "tmpl": last["tmpl"], "hmap": last["hmap"], "mol": 0, "tags": [], "gen": [],
                            "held": held, "sizeok": sizeok})

    # ---- numeric monitor of one generated template
    def monitor(self, h, tmpl, size):
        names = sorted(tmpl)
        t = {n: np.asarray(v, float) for n, v in tmpl.items()}
        call = None
        for oc in reversed(self.opt_calls):
            if sorted(oc["coords"]) == names:
                cc = np.array([oc["coords"][n] for n in names])
                if np.abs((cc - cc.mean(axis=0)) - np.array([t[n] for n in names])).max() <= 1e-9:
                    call = oc
                    break
        rec = {"hash": h, "names_ok": call is not None, "cog0": bool(np.abs(np.mean(list(t.values()), axis=0)).max() <= TOL),
               "size_pos": bool(size is not None and np.isfinite(size) and size > 0), "vs_ok": True, "equiv_ok": True, "targets_ok": True,
               "raw": {"size": None if size is None else float(size), "success": None, "worst": {}}}
        rec["vs"] = "none"
        if call is None:
            rec["raw"]["why"] = "no optimize_geometry result matches the stored template"
            return rec
        block = call["block"]
        rec["raw"]["success"] = call["success"]
        rec["names_ok"] = bool(set(block.nodes) == set(names))
        rng = np.random.default_rng(abs(hash(h)) % (2 ** 32))
        from polyply.src.virtual_site_builder import construct_vs
        nvs = 0
        for sec in ("virtual_sitesn", "virtual_sites2", "virtual_sites3", "virtual_sites4"):
            for inter in block.interactions.get(sec, []):
                nvs += 1
                site, frm = inter.atoms[0], list(inter.atoms[1:])
                func, params = inter.parameters[0], [float(x) for x in inter.parameters[1:]]
                try:
                    exp = gm.construct(sec, func, [t[a] for a in frm], params)
                    dev = float(np.abs(exp - t[site]).max())
                    R, sh = gm.random_rotation(rng), rng.uniform(-2, 2, size=3)
                    moved = {a: R @ t[a] + sh for a in frm}
                    moved[site] = np.zeros(3)
                    got_m = np.asarray(construct_vs(sec, inter, moved), float)
                    got_0 = np.asarray(construct_vs(sec, inter, {a: t[a] for a in inter.atoms}), float)
                    edev = float(np.abs(got_m - (R @ got_0 + sh)).max())
                except Exception as exc:
                    dev = edev = float("inf")
                    rec["raw"]["vs_exception"] = str(exc)
                rec["raw"]["worst"]["vs"] = max(rec["raw"]["worst"].get("vs", 0.0), dev)
                rec["raw"]["worst"]["equiv"] = max(rec["raw"]["worst"].get("equiv", 0.0), edev)
                if not dev <= 1e-6:
                    rec["vs_ok"] = False
                if not edev <= 1e-8:
                    rec["equiv_ok"] = False
        rec["raw"]["nvs"] = nvs
        rec["vs"] = "none" if not nvs else ("constructed" if rec["vs_ok"] else "initial")
        if call["success"]:
            for it in call["types"]:
                for inter in block.interactions.get(it, []):
                    p = [t[a] for a in inter.atoms]
                    if it in ("bonds", "constraints"):
                        d = abs(gm.distance(p[0], p[1]) - float(inter.parameters[1]))
                    elif it == "angles":
                        d = abs(gm.angle_deg(p[0], p[1], p[2]) - float(inter.parameters[1]))
                    elif it == "dihedrals" and inter.parameters[0] == "2":
                        d = abs(gm.dihedral_deg(p[0], p[1], p[2], p[3]) - float(inter.parameters[1]))
                        d = min(d, 360.0 - d)
                    else:
                        continue
                    rec["raw"]["worst"][it] = max(rec["raw"]["worst"].get(it, 0.0), float(d))
                    if not d <= TOLER[it] * (1 + 1e-9) + 1e-9:
                        rec["targets_ok"] = False
        return rec


# ------------------------------------------------------------------------------------------------ I -> S : systems

def relist(rng, res):
    """the same residue with its atoms listed in another order"""
    perm = [int(i) for i in rng.permutation(len(res["names"]))]
    out = dict(res)
    out["names"] = [res["names"][i] for i in perm]
    out["atypes"] = [res["atypes"][i] for i in perm]
    out["bonds"] = [list(b) for b in rng.permutation(np.array(res["bonds"], dtype=object))] if len(res["bonds"]) > 1 else res["bonds"]
    return out


def canon_py(res):
    """only used by the GENERATOR to keep its inputs inside the domain (content determines the residue name, one template per content)"""
    return (tuple(sorted(res["names"])), tuple(sorted(tuple(sorted((a, b))) for a, b, _ in res["bonds"] + res["constraints"])))


def random_case(sd):
    rng = np.random.default_rng(sd)
    ntypes = int(rng.integers(2, 5))
    types, seen = [], {}
    while len(types) < ntypes:
        rn = "R%d" % int(rng.integers(0, 2)) if rng.random() < 0.6 else "R%d" % (2 + len(types))
        res = tu.random_residue(rng, rn, nmax=int(rng.choice([3, 5, 8])))
        cn = canon_py(res)
        if cn in seen and seen[cn] != rn:
            continue
        seen[cn] = rn
        types.append(res)
    if rng.random() < 0.6:
        types.append(relist(rng, types[int(rng.integers(0, len(types)))]))
    # round 4: (a) a LARGE residue type (16-24 atoms; the key of a residue must not depend on where it is computed, whatever its size),
    # mostly with a [ template ] in the build file; (b) runs without any build file, where nothing but the memory of GenerateTemplates
    # itself connects the molecules.  Decisions drawn from a second stream so that the small part of the system stays as it was.
    rng2 = np.random.default_rng([sd, 4])
    large = set()
    if rng2.random() < 0.35:
        big = tu.large_residue(rng2, "RL")
        large.add(len(types))
        types.append(big)
        if rng2.random() < 0.3:
            large.add(len(types))
            types.append(relist(rng2, big))
    nobld = bool(rng2.random() < 0.2)
    # round 5: a residue with no bond, constraint, angle or improper of its own - only a virtual-site definition (every kind, sometimes
    # [ settles ]); the minimiser has nothing to do for it.  Own atom names (Q*, W1) and residue name; no [ template ] is supplied for it.
    rng3 = np.random.default_rng([sd, 5])
    vsonly = set()
    if rng3.random() < 0.35:
        vsonly.add(len(types))
        types.append(tu.vs_only_residue(rng3, "RW", kind=int(sd % len(tu.VS_ONLY_KINDS)) if rng3.random() < 0.5 else None))
    tids = ["s%dt%d" % (sd, i) for i in range(len(types))]
    moltypes, mols, node_types = [], [], []
    for m in range(int(rng.integers(1, 4))):
        nres = int(rng.integers(1, 5))
        pick = [int(rng.integers(0, len(types))) for _ in range(nres)]
        if large and m == 0 and not (set(pick) & large):
            pick[int(rng2.integers(0, nres))] = min(large)            # a large type that exists is used
        if vsonly and m == 0 and not (set(pick) & vsonly):
            free = [j for j in range(nres) if pick[j] not in large] or [0]
            pick[free[int(rng3.integers(0, len(free)))]] = min(vsonly)
        edges = [(int(rng.integers(0, i)), i) for i in range(1, nres)]
        moltypes.append(tu.molecule_from_residues("M%d" % m, [types[i] for i in pick], edges, rng))
        cnt = int(rng.integers(1, 3))
        mols.append(["M%d" % m, cnt])
        node_types += [[tids[i] for i in pick]] * cnt
    # build file: at most one template per content, one volume line per residue name
    entries, bld, done_c, done_r = [], [], set(), set()
    order = [int(i) for i in rng.permutation(len(types))]
    for i in order:
        cn = canon_py(types[i])
        if cn not in done_c and (rng.random() < 0.45 or (i in large and rng2.random() < 0.6)) and i not in vsonly:
            done_c.add(cn)
            res = relist(rng, types[i]) if rng.random() < 0.5 else types[i]
            coords = [[round(float(x), 3) for x in rng.uniform(-0.4, 0.4, size=3)] for _ in res["names"]]
            bonds = [[a, b] for a, b, _ in res["bonds"] + res["constraints"]]
            entries.append(("template", res["resname"], [[n, t] + xyz for n, t, xyz in zip(res["names"], res["atypes"], coords)], bonds))
            bld.append({"e": "T", "t": tids[i], "rn": res["resname"], "names": res["names"], "coords": coords})
        rn = types[i]["resname"]
        if rn not in done_r and rng.random() < 0.45:
            done_r.add(rn)
            v = int(rng.integers(200, 900))
            if rng.random() < 0.5:
                entries.append(("volumes", [[rn, v / 1000.0]]))
                bld.append({"e": "V", "rn": rn, "v": v})
            else:
                entries.insert(0, ("volumes", [[rn, v / 1000.0]]))
                bld.insert(0, {"e": "V", "rn": rn, "v": v})
    content = {tid: {"rn": r["resname"], "nm": r["names"],
                     "ed": [[r["names"].index(a) + 1, r["names"].index(b) + 1] for a, b, _ in r["bonds"] + r["constraints"]],
                     "hasvs": bool(r["vs"]), "bonded": bool(r["bonds"] or r["constraints"] or r["angles"] or r["impropers"])}
               for tid, r in zip(tids, types)}
    if nobld:
        entries, bld = [], []
    return {"seed": sd, "system": {"atomtypes": tu.ATOMTYPES, "moltypes": moltypes, "molecules": mols}, "entries": entries, "bld": bld,
            "types": tids, "content": content, "sys": node_types, "skip_filter": bool(rng.random() < 0.3), "nobld": nobld,
            "resdefs": dict(zip(tids, types)), "large": sorted(tids[i] for i in large), "vsonly": sorted(tids[i] for i in vsonly)}


def _trace_run(arg):
    sd, wd = arg
    wd = Path(wd)
    wd.mkdir(parents=True, exist_ok=True)
    random.seed(sd)
    np.random.seed(sd % (2 ** 32))
    case = random_case(sd)
    (wd / "sys.top").write_text(tu.render_top(case["system"]))
    if not case["nobld"]:
        (wd / "sys.bld").write_text(tu.render_bld(case["entries"]) if case["entries"] else "; no entries\n")
    rec = TRecorder(case["bld"], case["sys"])
    exc = None
    try:
        top = tu.load_topology(wd / "sys.top", [] if case["nobld"] else [wd / "sys.bld"])
        if case["skip_filter"]:
            from polyply.src.check_residue_equivalence import check_residue_equivalence
            try:
                check_residue_equivalence(top)
            except IOError:
                case["skip_filter"] = False       # equal names, different shape: the documented refusal of -skip_filter; use the default mode
        tu.generate_templates(top, skip_filter=case["skip_filter"])
        rec.log_end(top, case)
    except tu.ItemTimeout:
        raise
    except c.MachineryError:
        raise
    except Exception as e:
        import traceback
        exc = "%s: %s | %s" % (type(e).__name__, e, traceback.format_exc().splitlines()[-3:])
    finally:
        rec.close()
    raws = [[g.pop("raw") for g in ev["gen"]] for ev in rec.events]
    return {"seed": sd, "case": {k: case[k] for k in ("system", "entries", "bld", "skip_filter", "nobld")}, "exception": exc,
            "trace": {"types": case["types"], "sys": case["sys"], "nobld": case["nobld"],
                      "bld": [{"e": b["e"], "t": b.get("t", ""), "rn": b["rn"], "v": b.get("v", 0)} for b in case["bld"]],
                      "events": rec.events},
            "content": case["content"], "raw": raws, "large": case["large"], "vsonly": case["vsonly"]}


def vs_samples(rng, n):
    """construct_vs against the independent GROMACS formulas and under a random rigid motion, all kinds incl. 3fd, 3fad, 3out, 4fdn"""
    from collections import namedtuple
    from polyply.src import virtual_site_builder as vsb
    construct = tu.need(vsb, "construct_vs")
    Inter = namedtuple("Interaction", "atoms parameters meta")
    kinds = [("virtual_sites2", "1", 2, 1), ("virtual_sites3", "1", 3, 2), ("virtual_sites3", "2", 3, 2), ("virtual_sites3", "3", 3, 2),
             ("virtual_sites3", "4", 3, 3), ("virtual_sites4", "2", 4, 3), ("virtual_sitesn", "1", 3, 0)]
    out = []
    for i in range(n):
        sec, func, k, npar = kinds[i % len(kinds)]
        xs = [rng.uniform(-1, 1, size=3) for _ in range(k)]
        if (sec, func) == ("virtual_sites3", "3"):
            params = [float(rng.uniform(10, 170)), float(rng.uniform(0.05, 0.5))]
        else:
            params = [float(x) for x in rng.uniform(-1.5, 1.5, size=npar)]
        inter = Inter(atoms=tuple(range(k + 1)), parameters=[func] + [repr(p) for p in params], meta={})
        R, sh = gm.random_rotation(rng), rng.uniform(-3, 3, size=3)
        try:
            got = np.asarray(construct(sec, inter, {j + 1: xs[j] for j in range(k)} | {0: np.zeros(3)}), float)
            exp = gm.construct(sec, func, xs, params)
            gotm = np.asarray(construct(sec, inter, {j + 1: R @ xs[j] + sh for j in range(k)} | {0: np.zeros(3)}), float)
            d1, d2 = float(np.abs(got - exp).max()), float(np.abs(gotm - (R @ got + sh)).max())
        except Exception as exc:
            d1 = d2 = float("inf")
        out.append({"kind": "%s/%s" % (sec, func), "matches_gmx": bool(d1 <= 1e-9), "equivariant": bool(d2 <= 1e-9),
                    "raw": {"x": [x.tolist() for x in xs], "params": params, "dev_gmx": d1, "dev_equivariance": d2}})
    return out


def constraint_conflict_residue(rng):
    """constraints no geometry can satisfy: a chain of n-1 constraints of length a closed by one constraint of length (n-1)*a + e.
    The best compromise is the stretched chain with every constraint e/n off; e/n is drawn from 0.06 .. 0.14 nm, i.e. outside the
    0.05 nm tolerance whatever the optimiser does (the deviations add up to at least e).  Optionally one more atom hangs on a
    satisfiable bond, and the atoms are listed in random order."""
    n = int(rng.integers(3, 6))
    a = round(float(rng.uniform(0.22, 0.35)), 3)
    off = float(rng.choice([0.06, 0.07, 0.08, 0.1, 0.12, 0.14]))
    names = [str(x) for x in rng.permutation(tu.NAMES)[:n]]
    cons = [[names[i], names[i + 1], a] for i in range(n - 1)] + [[names[0], names[n - 1], round((n - 1) * a + n * off, 4)]]
    res = {"resname": "RO", "names": list(names), "atypes": ["P"] * n, "bonds": [], "constraints": cons, "angles": [], "impropers": [], "vs": []}
    if rng.random() < 0.5:
        extra = [x for x in tu.NAMES if x not in names][0]
        res["names"].append(extra)
        res["atypes"].append("P")
        res["bonds"].append([names[int(rng.integers(0, n))], extra, round(float(rng.uniform(0.25, 0.4)), 3)])
    perm = [int(i) for i in rng.permutation(len(res["names"]))]
    res["names"] = [res["names"][i] for i in perm]
    return res, off


def _opt_chunk(arg):
    """optimize_geometry as a pure function: blocks read from a real .top, easy and deliberately hard (conflicting angle targets,
    collapsed or random starts) instances; the claim is only 'reported success => every target within tolerance'"""
    sd, n, wd = arg
    wd = Path(wd)
    wd.mkdir(parents=True, exist_ok=True)
    rng = np.random.default_rng(sd)
    random.seed(sd)
    np.random.seed(sd % (2 ** 32))
    from polyply.src import generate_templates as gt
    from polyply.src import minimizer as mz
    optimize = tu.need(mz, "optimize_geometry")
    out = []
    for i in range(n):
        res = tu.random_residue(rng, "RO", nmax=6, with_vs=rng.random() < 0.3)
        while len([t for t in res["atypes"] if t != "VS"]) < 3:
            res = tu.random_residue(rng, "RO", nmax=6, with_vs=False)
        hard = i % 3 == 1
        conflict = 0.0
        if i % 3 == 2:
            res, conflict = constraint_conflict_residue(rng)
        if hard:
            # conflicting targets: every bonded triple gets a wide angle (infeasible around a branched centre or in a ring)
            real = [nm for nm, t in zip(res["names"], res["atypes"]) if t != "VS"]
            edges = [(a, b) for a, b, _ in res["bonds"] + res["constraints"]]
            adj = {x: sorted({b for a, b in edges if a == x} | {a for a, b in edges if b == x}) for x in real}
            res["angles"] = [[nb[p], x, nb[q], float(rng.choice([150.0, 170.0, 60.0]))] for x, nb in adj.items() for p in range(len(nb)) for q in range(p + 1, len(nb))][:6]
        mt = tu.molecule_from_residues("MO", [res], [])
        (wd / "o.top").write_text(tu.render_top({"atomtypes": tu.ATOMTYPES, "moltypes": [mt], "molecules": [["MO", 1]]}))
        try:
            top = tu.load_topology(wd / "o.top")
            mm = top.molecules[0]
            block = gt.extract_block(mm.molecule, mm.nodes[0]["graph"], top.defines)
            names = list(block.nodes)
            mode = int(rng.integers(0, 3))
            if mode == 0:
                coords = gt._expand_inital_coords(block)
            elif mode == 1:
                coords = {nm: rng.normal(scale=0.3, size=3) for nm in names}
            else:
                coords = {nm: rng.normal(scale=0.01, size=3) for nm in names}
            types_ = ["bonds", "constraints", "angles", "dihedrals"]
            success, new = optimize(block, {k: np.array(v, float) for k, v in coords.items()}, types_)
            worst, ok = {}, True
            for it in types_:
                for inter in block.interactions.get(it, []):
                    p = [np.asarray(new[a], float) for a in inter.atoms]
                    if it in ("bonds", "constraints"):
                        d = abs(gm.distance(p[0], p[1]) - float(inter.parameters[1]))
                    elif it == "angles":
                        d = abs(gm.angle_deg(p[0], p[1], p[2]) - float(inter.parameters[1]))
                    elif inter.parameters[0] == "2":
                        d = abs(gm.dihedral_deg(p[0], p[1], p[2], p[3]) - float(inter.parameters[1]))
                        d = min(d, 360.0 - d)
                    else:
                        continue
                    worst[it] = max(worst.get(it, 0.0), float(d))
                    if not d <= TOLER[it] * (1 + 1e-9) + 1e-9:
                        ok = False
            out.append({"success": bool(success), "targets_ok": bool(ok), "hard": hard, "conflict": conflict,
                        "raw": {"residue": res, "start": mode, "worst": worst, "seed": sd, "i": i}})
        except tu.ItemTimeout:
            raise
        except Exception as exc:
            out.append({"success": True, "targets_ok": False, "hard": hard, "conflict": conflict, "raw": {"residue": res, "exception": "%s: %s" % (type(exc).__name__, exc), "seed": sd, "i": i}})
    return out


BATCH = 50


def validate(ck, runs, vs, name, count=True, opt=()):
    """TpTrace over the runs, in batches of BATCH traces (every table of the specification ranges over the residue types of the whole
    document, so one document with all traces costs states x types); samples of construct_vs / optimize_geometry go with the first batch.
    -> ({trace number (1-based over runs): matched events}, rejected sample numbers)"""
    wd = c.workdir("C15", name)
    batches = [runs[i:i + BATCH] for i in range(0, len(runs), BATCH)] or [[]]
    jobs = []
    for b, batch in enumerate(batches):
        content = {}
        for r in batch:
            content.update(r["content"])
        if not content:
            content = {"none": {"rn": "RX", "nm": ["A"], "ed": [], "hasvs": False, "bonded": False}}
        doc = {"content": content, "traces": [r["trace"] for r in batch],
               "vs": [{k: s_[k] for k in ("kind", "matches_gmx", "equivariant")} for s_ in vs] if b == 0 else [],
               "opt": [{k: o[k] for k in ("success", "targets_ok")} for o in opt] if b == 0 else []}
        f = wd / ("traces%d.json" % b)
        f.write_text(json.dumps(doc))
        jobs.append(("TpTrace", "Tp_trace.cfg", {"workers": 1, "env": {"TRACE_FILE": str(f)}, "check": False}))
    par = max(1, min(c.NPROC, 5))
    results = []
    for i in range(0, len(jobs), par):
        results += c.tlc_many(jobs[i:i + par], workers_each=1)
    rejected, badsamples = {}, set()
    for b, res in enumerate(results):
        rej, rejvs = res.tagged("REJECTED"), res.tagged("REJECTEDVS") + [[-int(i) for i in r] for r in res.tagged("REJECTEDOPT")]
        if res.rc != 0 and not rej and not rejvs:
            raise c.MachineryError("TpTrace failed: %s" % res.out[-2500:])
        for r in rej:
            rejected.update({b * BATCH + int(t): int(m) for t, m in r})
        badsamples |= {int(i) for r in rejvs for i in r}
        if count:
            ck.add_tlc(res)
    return rejected, sorted(badsamples)


def binding_demo(ck, runs, rejected, vs, badvs):
    good = [r for t, r in enumerate(runs, 1) if t not in rejected and any(ev["gen"] for ev in r["trace"]["events"]) and any(v[1] == "user" for ev in r["trace"]["events"] for v in ev["vols"])]
    if not good:
        good = [SYNTHETIC]      # misbehaving code: no recorded trace is acceptable; demonstrate on a hand-written valid trace
    base = json.loads(json.dumps(good[0]))
    r0, _ = validate(ck, [base], [], "corrupt0", count=False)
    if r0:
        raise c.MachineryError("binding demonstration: the uncorrupted trace is rejected")
    d1 = json.loads(json.dumps(base))
    gev = next(ev for ev in d1["trace"]["events"] if ev["gen"])
    gev["gen"][0]["cog0"] = False
    d2 = json.loads(json.dumps(base))
    gev2 = next(ev for ev in d2["trace"]["events"] if ev["op"] == "G")
    gev2["tags"][0] = "0" * 32
    d3 = json.loads(json.dumps(base))
    ev3 = next((ev for ev in d3["trace"]["events"] if any(v[1] == "user" for v in ev["vols"])), d3["trace"]["events"][-1])
    tgt = next((v for v in ev3["vols"] if v[1] == "user"), ev3["vols"][0])
    tgt[1], tgt[2] = ("computed", 0) if tgt[1] == "user" else ("user", 123)
    d5 = json.loads(json.dumps(base))
    d5["trace"]["events"][-1]["held"][-1][-1] += 1        # the last residue is backed by ANOTHER version of the template of its key
    r1, _ = validate(ck, [d1], [], "corrupt1", count=False)
    r2, _ = validate(ck, [d2], [], "corrupt2", count=False)
    r3, _ = validate(ck, [d3], [], "corrupt3", count=False)
    r5, _ = validate(ck, [d5], [], "corrupt5", count=False)
    okvs = [v for i, v in enumerate(vs, 1) if i not in badvs][:2]
    if len(okvs) < 2:
        okvs = [{"kind": "synthetic", "matches_gmx": True, "equivariant": True}] * 2
    vsbad = json.loads(json.dumps([{k: v[k] for k in ("kind", "matches_gmx", "equivariant")} for v in okvs]))
    vsbad[1]["equivariant"] = False
    _, r4 = validate(ck, [base], vsbad, "corrupt4", count=False)
    if 1 not in r1 or 1 not in r2 or 1 not in r3 or r4 != [2] or 1 not in r5:
        raise c.MachineryError("binding demonstration failed: corrupted records accepted (%s %s %s %s %s)" % (r1, r2, r3, r4, r5))
    ck.extra["binding_demo"] = ("a generated-template record with cog0=false, a residue carrying a foreign hash, a size whose source is altered, a construct_vs "
                                "sample with equivariant=false and a residue backed by a second version of its key's template are each rejected by TpTrace")


_SYN_G = {"op": "G", "vols": [["RS", "user", 500, True], ["h1", "user", 500, True]], "tmpl": [["h1", "generated"]],
          "hmap": [["h1", "syn0"]], "mol": 1, "tags": ["h1"], "held": [], "sizeok": [],
          "gen": [{"hash": "h1", "names_ok": True, "cog0": True, "size_pos": True, "vs_ok": True, "equiv_ok": True, "targets_ok": True, "vs": "none"}]}
SYNTHETIC = {"seed": -1, "content": {"syn0": {"rn": "RS", "nm": ["A", "B"], "ed": [[1, 2]], "hasvs": False, "bonded": True}}, "raw": [[], [], [{}], [], []], "large": [], "vsonly": [],
             "trace": {"types": ["syn0"], "sys": [["syn0"], ["syn0"]], "nobld": False, "bld": [{"e": "V", "t": "", "rn": "RS", "v": 500}],
                       "events": [{"op": "V", "vols": [["RS", "user", 500, True]], "tmpl": [], "hmap": [], "mol": 0, "tags": [], "gen": [], "held": [], "sizeok": []},
                                  {"op": "F", "vols": [["RS", "user", 500, True]], "tmpl": [], "hmap": [], "mol": 0, "tags": [], "gen": [], "held": [], "sizeok": []},
                                  _SYN_G, dict(_SYN_G, mol=2, gen=[]),
                                  dict(_SYN_G, op="E", mol=0, tags=[], gen=[], held=[[1], [1]], sizeok=[[True], [True]])]}}


# ------------------------------------------------------------------------------------------------ entry points

def _stratified(cases, keyf, rng, per_class):
    groups = {}
    for x in cases:
        groups.setdefault(keyf(x), []).append(x)
    out = []
    for k in sorted(groups, key=str):
        g = groups[k]
        out += g if len(g) <= per_class else rng.sample(g, per_class)
    return out


def run(tier):
    ck = c.Check("C15", tier)
    ck.rule = ("S->I: (a) residue pairs of TpGroup (<= 4 atoms from the names A-D, every connected bond graph, second residue also relisted, same / other "
               "residue name, same molecule / other moleculetype) - distinct by the pair, non-trivial when both residues have >= 2 atoms (TLC decides all pairs, the quick tier replays a stratified sample and counts only replayed ones); (b) every "
               "behaviour of Templates.tla (systems of 1-2 molecules over three contents, two of them with one residue name; build files = sequences of "
               "<= 3 distinct entries, or no build file at all; identical molecules rendered as two instances of one moleculetype) - distinct by (system, build file), "
               "non-trivial when the build file is not empty or two molecules share a residue; the same for the instance with residues of 16 and 18 atoms "
               "(templates and a size supplied for them; alternately with -skip_filter where permitted); (c) the virtual-site cases of TpVS. "
               "I->S: one trace per seeded random system (2-5 residue types of 1-9 atoms, rings, branches, all virtual-site kinds, relisted residues, "
               "in a third of the runs a residue of 16-24 atoms, in a third a residue that consists of a virtual-site definition only (all kinds, [ settles ]), templates / volumes in random order, a fifth of the runs without any build file, "
               "with and without -skip_filter); the last event compares what every residue is built from across the molecules")
    ck.assumptions = ["residues have pairwise distinct atom names; residues are connected through bonds, constraints or virtual-site definitions",
                      "no ties: the content of a residue determines its residue name, at most one [ template ] per content and one [ volumes ] line per name",
                      "virtual sites are constructed from real atoms (not from other virtual sites); residue definitions are geometrically feasible",
                      "exact part on a 0.25 nm lattice with rational parameters (TLC), compared at 1e-9; kinds 3fd, 3fad, 4fdn, centre of geometry, size > 0, "
                      "equivariance and optimiser targets by harness/geom_monitor.py, booleans required by TpTrace.tla",
                      "the abstraction of the graph hash is the canonical labelled graph (hash collisions of Weisfeiler-Lehman are not modelled)",
                      "at most one build file per run; 'the size belongs to the template' is judged with an independent formula "
                      "(tmpl_util.template_size, 1e-9), no verdict for a template with an atom closer than 1e-9 nm to its centre (the rule is discontinuous there)"]
    sd = c.seed()
    quick = tier == "quick"
    rng = random.Random(sd)
    tu.import_polyply_quietly()
    ck.stage("TLC: models, deviations, exports (concurrently)")
    devs = [("MC_Templates", "Tp_dev_VolOverwritten.cfg", "UserVolumeWins", "user volume overwritten by the generated one (m43)"),
            ("MC_Templates", "Tp_dev_UserRegen.cfg", "UserTemplateWins", "user template generated again"),
            ("MC_Templates", "Tp_dev_Recentre.cfg", "UserTemplateUnchanged", "user template re-centred around another point"),
            ("MC_Templates", "Tp_dev_VolLost.cfg", "UserVolumeWins", "repaired finding F21 %s (size by residue name deleted at the end of the build file)" % SIG_VOL),
            ("MC_Templates", "Tp_dev_KeySites.cfg", "UserTemplateWins", "the key of a large residue differs between the build-file parser and the annotation of the residues"),
            ("MC_Templates", "Tp_dev_ProcForgets.cfg", "OneTemplatePerKey", "GenerateTemplates keeps no memory across molecules (same key, other template per molecule)"),
            ("MC_Templates", "Tp_dev_SkipVS.cfg", "VSConstructed", "virtual sites only constructed as part of a minimisation that has targets (residue without bonded terms of its own)"),
            ("TpGroup", "Tp_dev_ByResname.cfg", "GroupingLaw", "grouping by residue name only"),
            ("TpVS", "Tp_dev_VSWeightSwap.cfg", "VSLaw", "virtual-site weights swapped")]
    # quick: the export run checks every law of Templates.tla on its instance, so it doubles as the model run
    named = [("group", ("TpGroup", "Tp_group.cfg", {"workers": 3})),
             ("export", ("MC_Templates", "Tp_export.cfg", {"workers": 3})),
             ("export_code", ("MC_Templates", "Tp_export_code.cfg", {"workers": 2})),
             ("export_large", ("MC_Templates", "Tp_export_large.cfg", {"workers": 2})),
             ("export_vsonly", ("MC_Templates", "Tp_export_vsonly.cfg", {"workers": 1})),
             ("vs", ("TpVS", "Tp_vs.cfg", {"workers": 1}))]
    if not quick:
        named.append(("full", ("MC_Templates", "Templates_full.cfg", {"workers": 4, "timeout": 3000})))
    named += [("dev:" + cfg, (m, cfg, {"workers": 1, "check": False})) for m, cfg, _, _ in devs]
    out = c.tlc_many([j for _, j in named], workers_each=2)
    res = {n: r for (n, _), r in zip(named, out)}
    ck.model_must_hold(res["group"], "GroupingLaw/NamesLaw/CanonLaw/OrderLaw")
    LAWS = "Tagged/UserTemplateWins/UserVolumeWins/UserTemplateUnchanged/KeySitesAgree/GeneratedOnce/OneTemplatePerKey/SizeBelongs/VSConstructed/UserSticks"
    ck.model_must_hold(res["export"], LAWS + " + export")
    ck.model_must_hold(res["export_large"], LAWS + " + export (residues of 16 and 18 atoms)")
    ck.model_must_hold(res["export_vsonly"], LAWS + " + export (residues without bonded terms of their own, only virtual-site definitions)")
    ck.add_tlc(res["export_code"])      # sensitivity export (DevVolLost): only selects and labels the behaviours in which the repaired defect F21 would show
    ck.model_must_hold(res["vs"], "VSLaw/Equivariant/Handed")
    if not quick:
        ck.model_must_hold(res["full"], LAWS + " (larger instance)")
    for m, cfg, inv, what in devs:
        ck.model_must_refute(res["dev:" + cfg], inv, what)
    ck.extra["deviations_refuted"] = {cfg: inv for _, cfg, inv, _ in devs}

    ck.stage("S->I: grouping pairs")
    gcases = res["group"].cases()
    if not gcases:
        raise c.MachineryError("TpGroup exported nothing")
    ck.extra["grouping_pairs_decided_by_TLC"] = len(gcases)
    def cls(x):
        return (x["same"], sorted(x["xnames"]) == sorted(x["ynames"]), x["rny"], x["joined"], x["x"]["n"], x["y"]["n"])
    gsel = _stratified(gcases, cls, rng, 12 if quick else 90)
    ck.extra["grouping_pairs_replayed"] = len(gsel)
    for x in gsel:
        ck.nontrivial.add("g" + json.dumps([x["x"], x["y"], x["rny"], x["joined"]])) if x["x"]["n"] >= 2 and x["y"]["n"] >= 2 else None
    ck.sample({"S->I grouping pair": next(x for x in gsel if x["same"] and x["x"]["n"] == 4 and x["x"]["nm"] != x["y"]["nm"])})
    replay_cases(ck, "group", gsel)

    ck.stage("S->I: precedence behaviours")
    pcases = res["export"].cases()
    code_cases = {case_key(x): x for x in res["export_code"].cases()}
    if not pcases or len(code_cases) != len(pcases):
        raise c.MachineryError("precedence exports disagree in size: %d vs %d" % (len(pcases), len(code_cases)))
    ndev = sum(1 for x in pcases if expected_proj(x) != expected_proj(code_cases[case_key(x)]))
    ck.extra["precedence_behaviours_decided_by_TLC"] = len(pcases)      # (+ the large-residue instance below)
    ck.extra["precedence_behaviours_sensitive_to_repaired_F21"] = ndev
    if quick:
        def pcls(x):
            return (len(x["sys"]), tuple(sorted({k for m in x["sys"] for k in m})), tuple(sorted((b["e"], b["k"] or b["rn"]) for b in x["bld"])),
                    expected_proj(x) != expected_proj(code_cases[case_key(x)]), x["nobld"])
        psel = _stratified(pcases, pcls, rng, 2)
    else:
        psel = pcases

    def shares(x):      # two molecules with a common content
        return any(set(a) & set(b) for i, a in enumerate(x["sys"]) for b in x["sys"][i + 1:])

    def large_keys(x, supplied):
        used = {k for m in x["sys"] for k in m}
        return [k for k in sorted(used) if len(x["content"][k]["nm"]) >= 16 and supplied == any(b["e"] == "T" and b["k"] == k for b in x["bld"])]
    # the instance with large residues: TLC decides all behaviours; generating a template of 16+ atoms costs seconds, so the quick tier
    # replays one ordering of every (system, set of entries) in which every large residue has its [ template ] (the clause "supplied
    # templates are used unchanged" for the size class in which a key function could change its mind) and four with a generated one
    lcases = res["export_large"].cases()
    if not lcases:
        raise c.MachineryError("the large-residue export is empty")
    ck.extra["precedence_behaviours_decided_by_TLC"] += len(lcases)
    if quick:
        def lcls(x):
            return (json.dumps(x["sys"]), tuple(sorted((b["e"], b["k"] or b["rn"]) for b in x["bld"])), x["nobld"])
        lsel = _stratified([x for x in lcases if not large_keys(x, False)], lcls, rng, 1)
        lsel += _stratified([x for x in lcases if large_keys(x, False)], lambda x: (x["nobld"], len(x["sys"])), rng, 1)
    else:
        lsel = lcases
    # residues whose only interactions are virtual-site definitions (kinds 2, 3, 3out, n; [ settles ]): all behaviours, both tiers
    vcases_only = res["export_vsonly"].cases()
    nvsonly = sum(1 for x in vcases_only for k in x["keys"] if x["content"][k]["hasvs"] and not x["content"][k]["bonded"])
    if not nvsonly:
        raise c.MachineryError("the export of residues without bonded terms is empty")
    ck.extra["precedence_behaviours_decided_by_TLC"] += len(vcases_only)
    lsel = lsel + vcases_only
    for i, x in enumerate(psel + lsel):
        x["skip_filter"] = bool(i % 2 and may_skip_filter(x))
    nlarge_user = sum(len(large_keys(x, True)) for x in lsel)
    nshare = sum(1 for x in psel + lsel if x["nobld"] and shares(x))
    ck.extra["precedence_behaviours_replayed"] = len(psel) + len(lsel)
    ck.extra["precedence_replay_classes"] = {"large residue mapped to a supplied template": nlarge_user, "large residue generated": sum(len(large_keys(x, False)) for x in lsel),
                                             "no build file, two molecules sharing a residue": nshare,
                                             "generated templates of residues with virtual sites and no bonded term": nvsonly,
                                             "with -skip_filter": sum(1 for x in psel + lsel if x["skip_filter"])}
    if not nlarge_user or not nshare:
        raise c.MachineryError("vacuous precedence replay: %s" % ck.extra["precedence_replay_classes"])
    for x in psel + lsel:
        ck.nontrivial.add("p" + case_key(x)) if x["bld"] or shares(x) else None
    ck.sample({"S->I precedence case": {k: next(x for x in psel if len(x["bld"]) == 3)[k] for k in ("sys", "bld", "keys", "tags", "held")}})
    replay_cases(ck, "prec", psel, code_cases)
    replay_cases(ck, "prec", lsel)

    ck.stage("S->I: virtual sites")
    vcases = res["vs"].cases()
    for x in vcases:
        ck.nontrivial.add("v" + json.dumps([x["kind"], x["x"], x["p"]]))
    ck.sample({"S->I virtual-site case": next(x for x in vcases if x["kind"] == "3out" and x["p"][2][0] != 0)})
    replay_cases(ck, "vs", vcases)

    ck.stage("I->S: random systems, real template generation")
    nruns = 60 if quick else 400
    wd = c.workdir("C15", "runs")
    items = [(sd * 100000 + i, str(wd / ("r%d" % i))) for i in range(nruns)]
    results = tu.pmap_timeout(_trace_run, items, limit=90 if quick else 180)
    runs, timeouts = [], 0
    for item, (status, out, wall) in zip(items, results):
        if status != "ok":
            timeouts += 1
            continue
        if out["exception"]:
            ck.violation({"kind": "pipeline raised", "seed": item[0], "case": out["case"]},
                         what="Topology / build file / GenerateTemplates raised on an in-domain system (seed %d): %s" % (item[0], out["exception"]))
            continue
        runs.append(out)
    ck.extra["template_runs"] = nruns
    ck.extra["template_runs_timeouts_no_verdict"] = timeouts
    if timeouts > nruns // 2 or not runs:
        raise c.MachineryError("%d of %d template runs timed out" % (timeouts, nruns))
    vs = vs_samples(np.random.default_rng(sd + 3), 350 if quick else 3500)
    nopt = 15 if quick else 60
    chunks_ = tu.pmap_timeout(_opt_chunk, [(sd * 7919 + j, 10, str(wd / ("o%d" % j))) for j in range(nopt)], limit=120)
    opt = [o for st, part, _ in chunks_ if st == "ok" for o in part]
    ck.extra["optimize_geometry_samples"] = {"total": len(opt), "reported_success": sum(1 for o in opt if o["success"]),
                                             "reported_failure": sum(1 for o in opt if not o["success"]),
                                             "inconsistent_constraint_instances": sum(1 for o in opt if o["conflict"]),
                                             "of_these_ending_0.05_to_0.158_nm_off": sum(1 for o in opt if o["conflict"] and 0.05 < o["raw"].get("worst", {}).get("constraints", 0) < 0.158),
                                             "chunks_timed_out_no_verdict": sum(1 for st, _, _ in chunks_ if st != "ok")}
    rejected, badvs = validate(ck, runs, vs, "traces", opt=opt)
    badopt = [-i for i in badvs if i < 0]
    badvs = [i for i in badvs if i > 0]
    stats = {"events": 0, "generated": 0, "optimised": 0, "with_vs": 0, "user_templates": 0, "user_volumes": 0, "shared": 0,
             "runs_with_large_residue": 0, "large_residue_with_supplied_template": 0, "runs_without_build_file": 0,
             "no_build_file_and_molecules_sharing_a_key": 0, "residues_compared_across_molecules": 0,
             "generated_templates_with_vs_and_no_bonded_term": 0}
    for r in runs:
        for ev, raws in zip(r["trace"]["events"], r["raw"]):
            stats["events"] += 1
            for g, raw in zip(ev["gen"], raws):
                stats["generated"] += 1
                stats["optimised"] += 1 if raw.get("success") else 0
                stats["with_vs"] += 1 if raw.get("nvs") else 0
                ck.nontrivial.add("t" + g["hash"] + json.dumps(raw.get("worst", {}), sort_keys=True))
        last = r["trace"]["events"][-1]
        stats["user_templates"] += sum(1 for t in last["tmpl"] if t[1] == "user")
        stats["user_volumes"] += sum(1 for v in last["vols"] if v[1] == "user")
        hs = [h for ev in r["trace"]["events"] for h in ev["tags"]]
        stats["shared"] += 1 if len(set(hs)) < len(hs) else 0
        stats["runs_with_large_residue"] += 1 if r["large"] else 0
        vh = {p_[0] for ev in r["trace"]["events"] for p_ in ev["hmap"] if p_[1] in r["vsonly"]}
        stats["generated_templates_with_vs_and_no_bonded_term"] += sum(1 for ev in r["trace"]["events"] for g in ev["gen"] if g["hash"] in vh and g["vs"] == "constructed")
        stats["large_residue_with_supplied_template"] += 1 if any(b["e"] == "T" and b["t"] in r["large"] for b in r["trace"]["bld"]) else 0
        stats["runs_without_build_file"] += 1 if r["trace"]["nobld"] else 0
        per_mol = [set(ev["tags"]) for ev in r["trace"]["events"] if ev["op"] == "G"]
        across = any(a & b for i, a in enumerate(per_mol) for b in per_mol[i + 1:])
        stats["no_build_file_and_molecules_sharing_a_key"] += 1 if r["trace"]["nobld"] and across else 0
        stats["residues_compared_across_molecules"] += sum(len(row) for row in last["held"]) if across else 0
    ck.evaluations += stats["events"] + len(vs)
    ck.extra["trace_stats"] = dict(stats, construct_vs_samples=len(vs))
    ck.actions.update({"events(real)": stats["events"], "templates generated(real)": stats["generated"]})
    vacuous = not (stats["generated"] and stats["optimised"] and stats["with_vs"] and stats["user_templates"] and stats["user_volumes"] and stats["shared"]
                   and stats["large_residue_with_supplied_template"] and stats["no_build_file_and_molecules_sharing_a_key"]
                   and stats["generated_templates_with_vs_and_no_bonded_term"])
    sample_run = next((r for r in runs if any(ev["gen"] for ev in r["trace"]["events"]) and r["trace"]["bld"]), runs[0])
    ck.sample({"I->S trace": {"bld": sample_run["trace"]["bld"], "sys": sample_run["trace"]["sys"],
                              "events": [{k: ev[k] for k in ("op", "vols", "tmpl", "tags", "gen", "held")} for ev in sample_run["trace"]["events"][:4] + sample_run["trace"]["events"][-1:]]}})
    ck.traces += len(runs) - len(rejected)
    for tid, matched in sorted(rejected.items()):
        r = runs[tid - 1]
        evs = r["trace"]["events"]
        what = "template trace (seed %d) rejected by TpTrace after %d matched events; next event %s; monitor %s" % (
            r["seed"], matched, json.dumps({k: evs[matched][k] for k in (("op", "held", "sizeok") if evs[matched]["op"] == "E" else ("op", "vols", "tmpl", "gen"))} if matched < len(evs) else None)[:500],
            json.dumps(r["raw"][matched] if matched < len(r["raw"]) else None)[:400])
        case = {"kind": "I->S trace", "seed": r["seed"], "case": r["case"], "trace": r["trace"], "content": r["content"], "matched_events": matched}
        ck.violation(case, what=what)
    for i in badopt:
        ck.violation({"kind": "optimize_geometry", "sample": opt[i - 1]}, what="optimize_geometry reported success but a target is outside its tolerance: worst deviations %s" % (
            json.dumps(opt[i - 1]["raw"].get("worst", opt[i - 1]["raw"].get("exception")))[:300]))
    ck.evaluations += len(opt)
    if not ck.violations and not (ck.extra["optimize_geometry_samples"]["reported_success"] and ck.extra["optimize_geometry_samples"]["reported_failure"]
                                  and ck.extra["optimize_geometry_samples"]["of_these_ending_0.05_to_0.158_nm_off"] >= 5):
        raise c.MachineryError("vacuous optimiser samples: %s" % ck.extra["optimize_geometry_samples"])
    for i in badvs:
        ck.violation({"kind": "construct_vs", "sample": vs[i - 1]}, what="construct_vs %s differs from the GROMACS construction or is not equivariant: %s" % (
            vs[i - 1]["kind"], json.dumps(vs[i - 1]["raw"])[:400]))

    if vacuous and not ck.violations:       # (misbehaving code can empty a class of events: then the violations speak)
        raise c.MachineryError("vacuous I->S drivers: %s" % stats)

    ck.stage("binding demonstration")
    try:
        binding_demo(ck, runs, rejected, vs, badvs)
    except c.MachineryError as exc:
        if not ck.violations:
            raise
        ck.note("binding demonstration not conclusive on code that already violates the property: %s" % str(exc)[:300])
    ck.exhaustive = True
    return ck.finish()


def replay_one(path):
    doc = json.loads(open(path).read())
    case = doc["case"]
    tu.import_polyply_quietly()
    ck = c.Check("C15", "quick")
    kind = case["kind"]
    if kind == "S->I group":
        v, d = run_group_case(case["case"], c.workdir("C15", "replay_one"))
        print("replayed:", v, d)
        return 0 if v == "ok" else 1
    if kind == "S->I prec":
        v, d, obs = run_prec_case(case["case"], c.workdir("C15", "replay_one"))
        exp = expected_proj(case["case"])
        print("replayed:", v, d, "observed", obs, "expected", exp)
        return 0 if v == "ok" and obs == exp else 1
    if kind == "S->I vs":
        r = run_vs_chunk(([0], [case["case"]], str(c.workdir("C15", "replay_one"))))
        print("replayed:", r)
        return 0 if r[0][1] == "ok" else 1
    if kind in ("I->S trace", "pipeline raised"):
        status, out, _ = tu.pmap_timeout(_trace_run, [(case["seed"], str(c.workdir("C15", "replay_run")))], limit=180)[0]
        if status != "ok":
            print("re-run timed out: no verdict")
            return 0
        if out["exception"]:
            print("re-run raised:", out["exception"])
            return 1
        rej, _ = validate(ck, [out], [], "replay_one", count=False)
        print("re-run with the same seed: %s" % ("rejected after %d events" % rej[1] if rej else "accepted"))
        return 1 if rej else 0
    if kind == "construct_vs":
        from collections import namedtuple
        from polyply.src.virtual_site_builder import construct_vs
        smp = case["sample"]
        sec, func = smp["kind"].split("/")
        xs = [np.array(x, float) for x in smp["raw"]["x"]]
        inter = namedtuple("Interaction", "atoms parameters meta")(tuple(range(len(xs) + 1)), [func] + [repr(p) for p in smp["raw"]["params"]], {})
        got = np.asarray(construct_vs(sec, inter, {j + 1: x for j, x in enumerate(xs)} | {0: np.zeros(3)}), float)
        exp = gm.construct(sec, func, xs, smp["raw"]["params"])
        print("construct_vs %s: code %s, GROMACS formula %s" % (smp["kind"], got.tolist(), exp.tolist()))
        return 0 if np.abs(got - exp).max() <= 1e-9 else 1
    if kind == "optimize_geometry":
        raw = case["sample"]["raw"]
        part = _opt_chunk((raw["seed"], raw["i"] + 1, str(c.workdir("C15", "replay_opt"))))
        o = part[raw["i"]]
        print("optimize_geometry sample: success=%s targets_ok=%s worst=%s" % (o["success"], o["targets_ok"], o["raw"].get("worst")))
        return 1 if o["success"] and not o["targets_ok"] else 0
    return 2


def replay(path):
    return replay_one(path)
