"""Machinery of the X05 check (spec/Mods.tla): residue / terminal modifications of gen_params.

Python here only renders abstract inputs (exported by TLC or drawn by the seeded drivers) as real `.ff` files, builds the real
MetaMolecule / Molecule, runs the real ApplyModifications / gen_params, records one event per I-layer action through wrappers
installed from the harness (no edit of /repo) and projects real objects to the abstract state.  No rule of the property is
re-implemented: expected events, final molecules and error kinds come out of TLC (S->I) or are judged by TLC (I->S).
"""
import json
import os
import random
import sys
from concurrent.futures import ThreadPoolExecutor
from pathlib import Path

from . import common as c
from .ffmap_util import describe_exc, fnum, read_itp, time_limit, CaseTimeout, NATOMS

KEYMAP = {"an": "atomname", "ty": "atype", "q": "charge", "m": "mass"}
RKEYMAP = {v: k for k, v in KEYMAP.items()}
CASE_TIMEOUT = 30


# =========================================================================== rendering

def _jval(k, v):
    if k in ("q", "m"):
        return float(v)
    return v


def mod_text(md, ptm_names=()):
    out = ["[ modification ]", md["name"], "[ atoms ]"]
    for a in md["atoms"]:
        attrs = {}
        if a["an"] in ptm_names:
            attrs["PTM_atom"] = True
        if a["rep"]:
            attrs["replace"] = {KEYMAP[kv["k"]]: _jval(kv["k"], kv["v"]) for kv in a["rep"]}
        out.append("%s %s" % (a["an"], json.dumps(attrs)))
    cur = None
    for x in md["inters"]:
        if x["sec"] != cur:
            cur = x["sec"]
            out.append("[ %s ]" % cur)
        out.append(" ".join(list(x["at"]) + list(x["par"])))
    if md.get("edges"):
        out.append("[ edges ]")
        for e in md["edges"]:
            out.append("%s %s" % (e[0], e[1]))
    return "\n".join(out) + "\n"


def block_text(rn, blk):
    out = ["[ moleculetype ]", "%s 1" % rn, "[ atoms ]"]
    for i, a in enumerate(blk["atoms"]):
        out.append("%d %s 1 %s %s %d %s %s" % (i + 1, a["ty"], rn, a["an"], i + 1, a["q"], a["m"]))
    if blk.get("bonds"):
        out.append("[ bonds ]")
        for i, j, par in blk["bonds"]:
            out.append("%s %s %s" % (blk["atoms"][i]["an"], blk["atoms"][j]["an"], " ".join(par)))
    return "\n".join(out) + "\n"


def link_text(blocks, par=("1", "0.35", "4000"), atom="BB", rep=None):
    """one link for every pair of consecutive residues; rep: attributes the link replaces on the first residue's atom (ApplyLinks runs
    before ApplyModifications: a modification must win over it)"""
    names = sorted(rn for rn, b in blocks.items() if any(a["an"] == atom for a in b["atoms"]))
    if not names:
        return ""
    out = ["[ link ]", 'resname "%s"' % "|".join(names)]
    if rep:
        out += ["[ atoms ]", '%s {"replace": %s}' % (atom, json.dumps({KEYMAP[k]: _jval(k, v) for k, v in rep.items()}))]
    return "\n".join(out + ["[ bonds ]", "%s +%s %s" % (atom, atom, " ".join(par))]) + "\n"


# the blocks of the exhaustive instance (spec/ModsMC.tla BlockOf)
MC_BLOCKS = {
    "ALA": {"atoms": [{"an": "BB", "ty": "P2", "q": "0.0", "m": "72.0"}, {"an": "SC1", "ty": "C3", "q": "0.0", "m": "36.0"}],
            "bonds": [(0, 1, ("1", "0.27", "5000"))]},
    "GLY": {"atoms": [{"an": "BB", "ty": "P2", "q": "0.0", "m": "72.0"}], "bonds": []},
    "PEO": {"atoms": [{"an": "BB", "ty": "EO", "q": "0.0", "m": "44.0"}], "bonds": []},
}


def write_ff(wd, blocks, lib, tag="x", split=True, linkrep=None):
    """blocks + link in one file, modifications in a second one (empty library: no second file). Returns the paths."""
    wd = Path(wd)
    wd.mkdir(parents=True, exist_ok=True)
    block_names = {a["an"] for b in blocks.values() for a in b["atoms"]}
    rep_names = {kv["v"] for md in lib for a in md["atoms"] for kv in a["rep"] if kv["k"] == "an"}
    ptm = {a["an"] for md in lib for a in md["atoms"]} - block_names - rep_names
    p1 = wd / ("%s_blocks.ff" % tag)
    body = "[ citations ]\nvermouth\n\n" + "\n".join(block_text(rn, b) for rn, b in blocks.items()) + "\n" + link_text(blocks, rep=linkrep)
    mods = "\n".join(mod_text(md, ptm) for md in lib)
    if not split:
        p1.write_text(body + "\n" + mods)
        return [p1]
    p1.write_text(body)
    paths = [p1]
    if lib:
        p2 = wd / ("%s_mods.ff" % tag)
        p2.write_text(mods)
        paths.append(p2)
    return paths


def spec_string(r, rng=None):
    """<resname><resid> as the command line wants it; '#' is needed when the residue name ends in a digit"""
    rn = r["rn"]
    need = bool(rn) and rn[-1].isdigit()
    if need or (rng is not None and rng.random() < 0.15):
        s = "%s#%d" % (rn, r["resid"])
    else:
        s = "%s%d" % (rn, r["resid"])
    if rng is not None and rng.random() < 0.1:
        s = "A-" + s
    return s


def mods_arg(reqs, rng=None):
    return [[spec_string(r, rng), r["mod"]] for r in reqs]


# =========================================================================== building the real molecule

def layout_for(inp, rng, shapes=("linear", "cyclic")):
    """node keys, insertion order and the shape of the residue graph are not part of the abstraction"""
    n = len(inp["res"])
    keys = rng.sample(range(0 if rng.random() < 0.5 else 1, 3 * n + 3), n)
    if inp["reqs"]:
        order = list(range(n))
        rng.shuffle(order)
    else:
        order = [i - 1 for i in inp["ins"]]
    shape = rng.choice(shapes) if n >= 3 else "linear"
    edges = [(i, i + 1) for i in range(n - 1)]
    if shape == "cyclic":
        edges.append((n - 1, 0))
    elif shape == "tree":
        edges = [(rng.randrange(0, i), i) for i in range(1, n)]
    rng.shuffle(edges)
    edges = [(a, b) if rng.random() < 0.5 else (b, a) for a, b in edges]
    return {"keys": keys, "order": order, "edges": edges, "shape": shape}


def build_graph(inp, lay):
    import networkx as nx
    g = nx.Graph()
    for pos in lay["order"]:
        g.add_node(lay["keys"][pos], resname=inp["res"][pos]["rn"], resid=inp["res"][pos]["resid"])
    for a, b in lay["edges"]:
        g.add_edge(lay["keys"][a], lay["keys"][b])
    return g


def write_json_graph(inp, lay, path):
    nodes = [dict(id=lay["keys"][pos], resname=inp["res"][pos]["rn"], resid=inp["res"][pos]["resid"]) for pos in lay["order"]]
    edges = [{"source": lay["keys"][a], "target": lay["keys"][b]} for a, b in lay["edges"]]
    Path(path).write_text(json.dumps({"directed": False, "multigraph": False, "graph": {}, "nodes": nodes, "edges": edges}))


def project(mm):
    """MetaMolecule -> abstract atoms / interactions (1-based atom positions in node order; residue of an atom = position, in
    residue-id order, of the residue node whose fragment holds it - the residue ids written on the atoms are MapToMolecule's)"""
    mol = mm.molecule
    order = sorted(mm.nodes, key=lambda n: mm.nodes[n]["resid"])
    owner = {}
    for i, n in enumerate(order):
        g = mm.nodes[n].get("graph")
        if g is not None:
            for a in g.nodes:
                owner[a] = i + 1
    idx = {n: i + 1 for i, n in enumerate(mol.nodes)}
    atoms = []
    for n in mol.nodes:
        d = mol.nodes[n]
        atoms.append({"res": owner.get(n, 0), "an": str(d.get("atomname")), "ty": str(d.get("atype")),
                      "q": fnum(d.get("charge")), "m": fnum(d.get("mass"))})
    inters = []
    for sec, lst in mol.interactions.items():
        for x in lst:
            inters.append({"sec": sec, "at": [idx.get(a, 0) for a in x.atoms], "par": [str(p) for p in x.parameters]})
    return atoms, inters, idx


def project_reqs(target_mods):
    out = []
    for t, m in target_mods:
        out.append({"rn": str(t.get("resname", "")), "resid": t.get("resid", -1), "mod": str(m)})
    return out


def project_lib(ff):
    """real ff.modifications -> abstract library (shipped libraries)"""
    lib = []
    for name, md in ff.modifications.items():
        at = []
        for n in md.nodes:
            d = md.nodes[n]
            rep = [{"k": RKEYMAP.get(k, k), "v": fnum(v) if RKEYMAP.get(k) in ("q", "m") else str(v)} for k, v in d.get("replace", {}).items()]
            at.append({"an": d.get("atomname"), "rep": rep})
        ints = []
        for sec, lst in md.interactions.items():
            for x in lst:
                ints.append({"sec": sec, "at": [str(a) for a in x.atoms], "par": [str(p) for p in x.parameters]})
        lib.append({"name": str(name), "atoms": at, "inters": ints, "edges": [[str(a), str(b)] for a, b in md.edges]})
    return lib


# =========================================================================== recorder: one event per I-layer action

def _ev(op, k=0, a=0, sets=None, x=None, err="none"):
    return {"op": op, "k": k, "a": a, "sets": sets or [], "x": x or [], "err": err}


class _RecAtom(dict):
    """attribute dict of one atom of the molecule: reading the atom name opens a Visit event, assignments are its `sets`"""
    __slots__ = ("rec", "pos")

    def __getitem__(self, key):
        if key == "atomname" and self.rec.active:
            self.rec.visit(self.pos)
        return dict.__getitem__(self, key)

    def __setitem__(self, key, value):
        if self.rec.active:
            self.rec.set(self.pos, key, value)
        dict.__setitem__(self, key, value)


class _RecTarget(dict):
    __slots__ = ("rec",)

    def __getitem__(self, key):
        if key == "resid" and self.rec.active:
            self.rec.start_request()
        return dict.__getitem__(self, key)


class _RecMods(dict):
    __slots__ = ("rec",)

    def __getitem__(self, key):
        try:
            v = dict.__getitem__(self, key)
        except KeyError:
            if self.rec.active:
                self.rec.lookup_failed = True
            raise
        if self.rec.active and self.rec.phase == "start":
            self.rec.phase = "looked"
        return v


class _LogProxy:
    def __init__(self, rec, inner):
        self.rec, self.inner = rec, inner

    def warning(self, msg, *a, **kw):
        if self.rec.active:
            self.rec.warned(str(msg))
        return self.inner.warning(msg, *a, **kw)

    def __getattr__(self, name):
        return getattr(self.inner, name)


class Recorder:
    """Wraps, for one run of ApplyModifications on one meta molecule: the attribute dicts of the atoms, the request dicts, the
    modification table of the force field, vermouth.molecule.attributes_match (the amino-acid gate), Molecule.add_interaction and the
    module logger.  Events: begin | nomods, select | skip, visit (a, sets), add (x), error (err), finish."""

    def __init__(self, mm, am):
        self.mm, self.am = mm, am
        self.mol = mm.molecule
        self.events = []
        self.active = False
        self.k = 0
        self.phase = "idle"
        self.lookup_failed = False
        self.cur = None
        self.idx = {n: i + 1 for i, n in enumerate(self.mol.nodes)}
        self.warnings = []

    # ---- callbacks
    def start_request(self):
        self.k += 1
        self.phase = "start"
        self.cur = None

    def visit(self, pos):
        self.cur = _ev("visit", self.k, pos)
        self.events.append(self.cur)

    def set(self, pos, key, value):
        k = RKEYMAP.get(key, key)
        v = fnum(value) if k in ("q", "m") else str(value)
        if self.cur is None or self.cur["a"] != pos:
            self.events.append(_ev("stray-set", self.k, pos, [{"k": k, "v": v}]))
        else:
            self.cur["sets"].append({"k": k, "v": v})

    def gate(self, result):
        self.phase = "gated"
        self.events.append(_ev("select" if result else "skip", self.k))

    def warned(self, msg):
        self.warnings.append(msg)
        if msg.startswith("No modifications present"):
            self.events[0]["op"] = "nomods"

    def added(self, sec, atoms, par):
        self.cur = None
        self.events.append(_ev("add", self.k, 0, None, [{"sec": sec, "at": [self.idx.get(a, 0) for a in atoms], "par": [str(p) for p in par]}]))

    # ---- run
    def run(self):
        import vermouth.molecule
        import polyply.src.apply_modifications as amod
        mol, ff = self.mol, self.mol.force_field
        self.events.append(_ev("begin"))
        saved_nodes = {}
        for n in list(mol.nodes):
            d = _RecAtom(mol._node[n])
            d.rec, d.pos = self, self.idx[n]
            saved_nodes[n] = mol._node[n]
            mol._node[n] = d
        tm = []
        for t, m in self.am.target_mods:
            rt = _RecTarget(t)
            rt.rec = self
            tm.append((rt, m))
        saved_tm = self.am.target_mods
        self.am.target_mods = tm
        saved_mods = ff.modifications
        rm = _RecMods(saved_mods)
        rm.rec = self
        ff.modifications = rm
        orig_match = vermouth.molecule.attributes_match
        orig_add = mol.add_interaction
        orig_log = amod.LOGGER

        def match(*a, **kw):
            r = orig_match(*a, **kw)
            if self.active:
                self.gate(bool(r))
            return r

        def add(itype, atoms, parameters, meta=None):
            r = orig_add(itype, atoms, parameters, meta=meta)
            if self.active:
                self.added(itype, atoms, parameters)
            return r

        vermouth.molecule.attributes_match = match
        mol.add_interaction = add
        amod.LOGGER = _LogProxy(self, orig_log)
        exc = None
        self.active = True
        try:
            with time_limit(CASE_TIMEOUT):
                self.am.run_molecule(self.mm)
            self.events.append(_ev("finish"))
        except CaseTimeout:
            exc = {"type": "HANG", "msg": "no return within %d s" % CASE_TIMEOUT, "site": ""}
            self.events.append(_ev("error", self.k, err="hang"))
        except Exception as e:  # the code under test: an error event, judged by the specification
            exc = describe_exc(e)
            self.events.append(_ev("error", self.k, err=self.classify(e)))
        finally:
            self.active = False
            vermouth.molecule.attributes_match = orig_match
            del mol.add_interaction
            amod.LOGGER = orig_log
            ff.modifications = saved_mods
            self.am.target_mods = saved_tm
            for n, d in saved_nodes.items():
                if n in mol._node:
                    d.clear()
                    d.update(dict(mol._node[n]))
                    mol._node[n] = d
        return exc

    def classify(self, e):
        if isinstance(e, KeyError):
            if self.phase == "start":
                return "nomod" if self.lookup_failed else "nospec"
            if self.phase == "looked":
                return "noresid"
            if self.phase == "gated":
                return "noanchor"
        if isinstance(e, IndexError) and self.phase == "gated":
            return "arity"
        return "other:%s" % type(e).__name__


def canon_events(events):
    """visit order inside one request is not part of the abstraction (FreeOrder): sort every run of visit events by atom"""
    out, run = [], []
    for e in events:
        if e["op"] == "visit":
            run.append(e)
            continue
        out += sorted(run, key=lambda v: v["a"])
        run = []
        out.append(e)
    return out + sorted(run, key=lambda v: v["a"])


# =========================================================================== running the real code

_FF_CACHE = {}


def load_ff(paths, lib=None, cache_key=None):
    from polyply.src.load_library import load_ff_library
    if cache_key is not None and cache_key in _FF_CACHE:
        return _FF_CACHE[cache_key]
    ff = load_ff_library("t", lib, [Path(p) for p in paths])
    if cache_key is not None:
        _FF_CACHE[cache_key] = ff
    return ff


def run_recorded(paths, inp, lay, lib=None, cache_key=None, default_arg=False, rng=None, mods=None):
    """load + MetaMolecule + MapToMolecule + ApplyLinks (pre-state) + recorded ApplyModifications.
    Returns a dict: load_err | pre (atoms, inters) | reqs | events | post | exc. Never raises for errors of the code under test."""
    from polyply import MetaMolecule, MapToMolecule, ApplyLinks
    from polyply.src.apply_modifications import ApplyModifications
    res = {"events": []}
    stage = "load"
    try:
        with time_limit(CASE_TIMEOUT):
            ff = load_ff(paths, lib, cache_key)
    except CaseTimeout:
        res["load_err"] = {"type": "HANG", "msg": "load", "site": ""}
        return res
    except Exception as e:
        res["load_err"] = describe_exc(e)
        return res
    try:
        with time_limit(CASE_TIMEOUT):
            stage = "graph"
            mm = MetaMolecule(build_graph(inp, lay), force_field=ff, mol_name="t")
            stage = "map"
            MapToMolecule(ff).run_molecule(mm)
            stage = "links"
            ApplyLinks().run_molecule(mm)
            atoms, inters, _ = project(mm)
            res["pre"] = {"atoms": atoms, "inters": inters}
            stage = "init"
            if mods is None:
                mods = mods_arg(inp["reqs"], rng)
            res["mods"] = mods
            if default_arg and not mods:
                am = ApplyModifications(meta_molecule=mm)
            else:
                am = ApplyModifications(modifications=mods, meta_molecule=mm)
            res["reqs"] = project_reqs(am.target_mods)
    except CaseTimeout:
        res["setup_err"] = {"type": "HANG", "msg": stage, "site": "", "stage": stage}
        return res
    except Exception as e:
        d = describe_exc(e)
        d["stage"] = stage
        res["setup_err"] = d
        return res
    rec = Recorder(mm, am)
    exc = rec.run()
    res["events"] = rec.events
    res["warnings"] = rec.warnings[:5]
    if exc:
        res["exc"] = exc
    atoms, inters, _ = project(mm)
    res["post"] = {"atoms": atoms, "inters": inters}
    return res


def run_gen_params(paths, inp, lay, wd, mods, lib=None, sentinel=None, seq=None):
    """the real entry point: sequence .json file (or -seq strings) in, .itp out (read back with the small reader)"""
    from polyply.src.gen_itp import gen_params
    wd = Path(wd)
    wd.mkdir(parents=True, exist_ok=True)
    out = wd / "out.itp"
    for f in wd.glob("*out.itp*"):
        f.unlink()
    if sentinel is not None:
        out.write_text(sentinel)
    seqf = None
    if seq is None:
        seqf = wd / "seq.json"
        write_json_graph(inp, lay, seqf)
    res = {}
    argv = sys.argv
    try:
        with time_limit(CASE_TIMEOUT):
            sys.argv = ["polyply", "gen_params"]
            gen_params(name="t", outpath=out, inpath=[Path(p) for p in paths], lib=lib, seq=seq, seq_file=seqf, mods=mods)
    except CaseTimeout:
        res["exc"] = {"type": "HANG", "msg": "no return within %d s" % CASE_TIMEOUT, "site": ""}
    except Exception as e:
        res["exc"] = describe_exc(e)
    finally:
        sys.argv = argv
        # a failed command is a process that ended: what it left in the deferred writer (a singleton) must not reach the next case
        from vermouth.file_writer import DeferredFileWriter
        for tmp_path, _final, _mode in list(DeferredFileWriter().open_files):
            try:
                os.unlink(tmp_path)
            except OSError:
                pass
        DeferredFileWriter().open_files.clear()
    res["files"] = sorted(f.name for f in wd.iterdir() if "out.itp" in f.name)
    if out.exists():
        txt = out.read_text()
        if sentinel is not None and txt == sentinel:
            res["untouched"] = True
        else:
            try:
                res["itp"] = read_itp(out)
            except Exception as e:
                res["itp_err"] = "%s: %s" % (type(e).__name__, e)
    return res


# =========================================================================== comparison helpers

def strip_x(x):
    return {"sec": x["sec"], "at": list(x["at"]), "par": list(x["par"])}


def norm_case(case):
    """TLC's JSON: empty sequences may come out as [] or {}; function-with-int-domain as object"""
    def seq(v):
        if isinstance(v, dict):
            return [v[str(i + 1)] for i in range(len(v))]
        return v
    inp = case["inp"]
    for k in ("atoms", "base", "reqs", "res", "ins"):
        inp[k] = seq(inp[k])
    for x in inp["base"]:
        x["at"], x["par"] = seq(x["at"]), seq(x["par"])
    case["hist"] = seq(case["hist"])
    for e in case["hist"]:
        e["sets"], e["x"] = seq(e["sets"]), seq(e["x"])
        for x in e["x"]:
            x["at"], x["par"] = seq(x["at"]), seq(x["par"])
    for part in ("fin", "exp"):
        case[part]["atoms"] = seq(case[part]["atoms"])
        case[part]["added"] = seq(case[part]["added"])
        for x in case[part]["added"]:
            x["at"], x["par"] = seq(x["at"]), seq(x["par"])
    case["fin"]["reqs"] = seq(case["fin"]["reqs"])
    case["fired"] = sorted(seq(case["fired"]))
    return case


def norm_libs(libs):
    def seq(v):
        if isinstance(v, dict):
            return [v[str(i + 1)] for i in range(len(v))]
        return v
    out = {}
    for lid, lib in libs.items():
        lib = seq(lib)
        for md in lib:
            md["atoms"], md["inters"], md["edges"] = seq(md["atoms"]), seq(md["inters"]), seq(md["edges"])
            for a in md["atoms"]:
                a["rep"] = seq(a["rep"])
            for x in md["inters"]:
                x["at"], x["par"] = seq(x["at"]), seq(x["par"])
            md["edges"] = [seq(e) for e in md["edges"]]
        out[lid] = lib
    return out


def added_inters(pre, post):
    """interactions of post that are not in pre (as a multiset; the order of appending is checked through the events)"""
    left = [json.dumps(strip_x(x), sort_keys=True) for x in pre]
    out = []
    for x in post:
        key = json.dumps(strip_x(x), sort_keys=True)
        if key in left:
            left.remove(key)
        else:
            out.append(strip_x(x))
    return out, [json.loads(k) for k in left]


def skey(xs):
    return sorted(json.dumps(strip_x(x), sort_keys=True) for x in xs)


def as_read(x):
    """an interaction as the small .itp reader sees its written line: the first NATOMS[section] tokens are atoms (a truncated
    interaction of the open finding mod-interaction-truncated is therefore read with a parameter as its last atom)"""
    k = NATOMS.get(x["sec"])
    tok = [str(a) for a in x["at"]] + [str(p) for p in x["par"]]
    if k is None or len(x["at"]) == k:
        return {"sec": x["sec"], "at": list(x["at"]), "par": list(x["par"])}
    try:
        return {"sec": x["sec"], "at": [int(t) for t in tok[:k]], "par": tok[k:]}
    except ValueError:
        return {"sec": x["sec"], "at": list(x["at"]), "par": list(x["par"])}


def bag(inters):
    from .ffmap_util import canon_inter
    return sorted(canon_inter(as_read(x), with_ver=False, itp=True) for x in inters)


def itp_atoms(itp):
    return [(a["an"], a["ty"], a["q"], a["m"], a["rn"], a["resid"]) for a in itp["atoms"]]


def expected_itp_atoms(inp, atoms):
    return [(a["an"], a["ty"], a["q"], a["m"], inp["res"][a["res"] - 1]["rn"], inp["res"][a["res"] - 1]["resid"]) for a in atoms]


# =========================================================================== bounded parallel TLC

LIGHT_JVM = "-Xss64m -XX:ParallelGCThreads=1 -XX:TieredStopAtLevel=1 -XX:CICompilerCount=1"


def tlc_group(jobs, par=5):
    """run TLC jobs at most `par` at a time (single worker each); MachineryError of a job is re-raised at the end.
    light=True in a job's options: JVM settings for runs of a few seconds (one GC thread, C1 compiler only) - a third of the CPU time"""
    def one(job):
        module, cfg, kw = job
        kw = dict(kw)
        kw.setdefault("workers", 1)
        if kw.pop("light", False):
            kw["env"] = dict(kw.get("env") or {}, JAVA_TOOL_OPTIONS=LIGHT_JVM)
        try:
            return c.tlc(module, cfg, **kw)
        except c.MachineryError as exc:
            return exc
    with ThreadPoolExecutor(max(1, min(par, len(jobs)))) as ex:
        res = list(ex.map(one, jobs))
    for r in res:
        if isinstance(r, c.MachineryError):
            raise r
    return res
