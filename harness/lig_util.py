"""X04 helpers: abstract ligand cases -> real .top / .gro files and option strings, interposition recorder that turns one run of
the real gen_coords (real or stubbed random walk) into the event vocabulary of spec/Ligands.tla, comparison with exported behaviours.

Event vocabulary (same as the labels of Ligands.tla; molecule indices and node keys 1-based in events, 0-based in polyply):
  parse   a = option index, sp = [host record, ligand record] as the real parse_residue_spec returned them
  find    a = host molecule, d = [[position in ligand_defs[mol], host node, ligand molecule], ...] appended by this _find_nodes call
  initend end of AnnotateLigands.__init__
  connect a = molecule, d = [[new node, anchor node, ligand molecule, ligand node], ...]
  build   d = [[molecule, node], ...] nodes that received a position; near = [[molecule, node, 0|1], ...] numeric monitor per extra node
  split   a = molecule, d = [[molecule, node, pm, pk], ...] positions that changed (token = node the position was built for) and
          [[molecule, node, 0, 0], ...] nodes removed
  backmap d = [[host molecule, extra node, 0|1], ...]: the ligand residue ended at this copy's position AND one step from its final anchor
  write   d = [[line, molecule, node, pm, pk], ...] of the written .gro
  fail    e = exception type, ph = init | connect | build | split | backmap | write, a = molecule (connect, split)
"""
import os
import random
import signal
from pathlib import Path

import numpy as np

SIGMA = 0.47
BOX = 9.0
PHASE = {"parse": "init", "find": "init", "initend": "init", "connect": "connect", "build": "build", "split": "split",
         "backmap": "backmap", "write": "write"}


class NoVerdict(Exception):
    pass


# ----------------------------------------------------------------------------- rendering

def spec_str(sp):
    s = (sp["mol"] if sp["hasMol"] else "") + ("#%d" % sp["idx"] if sp["hasIdx"] else "")
    if sp["hasRn"] or sp["hasId"]:
        s += "-" + (sp["rn"] if sp["hasRn"] else "") + ("#%d" % sp["id"] if sp["hasId"] else "")
    return s


def lig_args(case):
    """the value argparse produces for -lig (type=lambda s: s.split(':'))"""
    return [(spec_str(o["h"]) + ":" + spec_str(o["l"])).split(":") for o in case["ligs"]]


def atomname(rn):
    return ("B" + rn)[:5]


def render_top(types, mols, variant=0):
    L = ["; X04 case", "[ defaults ]", "1 2 no 1.0 1.0", "[ atomtypes ]", "P 72.0 0.0 A %.2f 4.0" % SIGMA]
    used = []
    for m in mols:
        if m not in used:
            used.append(m)
    names = used if not (variant & 2) else sorted(types)       # unused molecule types may be listed too
    for name in names:
        T = types[name]
        L += ["[ moleculetype ]", "%s 1" % name, "[ atoms ]"]
        for k, r in enumerate(T["res"], 1):
            L.append("%d P %d %s %s %d 0.0 72" % (k, r["id"], r["rn"], atomname(r["rn"]), k))
        if T["edges"]:
            L.append("[ bonds ]")
            L += ["%d %d 1 %.2f 100" % (a, b, SIGMA) for a, b in T["edges"]]
    L += ["[ system ]", "x04", "[ molecules ]"]
    if variant & 1:
        i = 0
        while i < len(mols):
            j = i
            while j + 1 < len(mols) and mols[j + 1] == mols[i]:
                j += 1
            L.append("%s %d" % (mols[i], j - i + 1))
            i = j + 1
    else:
        L += ["%s 1" % m for m in mols]
    return "\n".join(L) + "\n"


def given_xyz(m, k):
    """supplied coordinates of node k (0-based) of molecule m (0-based): a straight line per molecule, one SIGMA apart"""
    return (0.6 + 0.9 * m, 0.5 + SIGMA * k, 1.0)


def render_gro(types, mols, given, box=BOX):
    rows, n = [], 0
    for m in range(given):
        for k, r in enumerate(types[mols[m]]["res"]):
            n += 1
            x, y, z = given_xyz(m, k)
            rows.append("%5d%-5s%5s%5d%8.3f%8.3f%8.3f" % (r["id"], r["rn"][:5], atomname(r["rn"]), n, x, y, z))
    return "supplied\n%5d\n%s\n%10.5f%10.5f%10.5f\n" % (n, "\n".join(rows), box, box, box)


def write_inputs(types, case, wd, variant=0):
    wd = Path(wd)
    wd.mkdir(parents=True, exist_ok=True)
    top = wd / "sys.top"
    top.write_text(render_top(types, case["mols"], variant))
    coord = None
    if case.get("given", 0):
        coord = wd / "start.gro"
        coord.write_text(render_gro(types, case["mols"], case["given"]))
    return top, coord


def attr_record(d):
    """what parse_residue_spec returned -> the record shape of the specification"""
    rid = d.get("resid", 0)
    return {"hasMol": "molname" in d, "mol": d.get("molname", ""), "hasIdx": "mol_idx" in d, "idx": int(d.get("mol_idx", 0)),
            "hasRn": "resname" in d, "rn": d.get("resname", ""), "hasId": "resid" in d,
            "id": int(rid) if float(rid) == int(rid) else -1}


# ----------------------------------------------------------------------------- stub for the random walk

class StubBuild:
    """stands in for BuildSystem when only the annotation life cycle is exercised: every node without a position gets a distinct one"""

    def __init__(self, topology, box=None, **kwargs):
        self.topology = topology
        topology.box = tuple(float(x) for x in box)

    def run_system(self, molecules):
        for i, mol in enumerate(self.topology.molecules):
            for n in mol.nodes:
                if "position" not in mol.nodes[n]:
                    mol.nodes[n]["position"] = np.array([0.4 + 0.5 * i, 0.3 + 0.25 * int(n), 0.0])
        return molecules


# ----------------------------------------------------------------------------- recorder

def _min_image(d, box):
    box = np.asarray(box, float)
    return d - box * np.round(d / box)


class Recorder:
    def __init__(self, walk="real", step_fudge=1.0):
        self.walk = walk
        self.step_fudge = step_fudge
        self.events = []
        self.phase = "top"
        self.top = None
        self.annot = None
        self.tokens = {}          # rounded position -> (mol, key) 1-based, taken just before the split
        self.tokpos = []          # [(pos, (m, k))]
        self.copies = []          # (hm, key, hn, lm, ln, step) 0-based, taken just before the split
        self.real_mols = None     # the plain molecule list while split_ligands sees the observing one
        self.nparse = 0
        self._sp = []
        self._saved = []
        self.raw = {}

    # -- helpers
    def emit(self, op, a=0, d=(), **kw):
        ev = {"op": op, "a": int(a), "d": sorted([int(x) for x in t] for t in d), "e": "", "ok": True}
        ev.update(kw)
        self.events.append(ev)
        return ev

    def fail(self, exc, a=0):
        self.events.append({"op": "fail", "a": int(a), "d": [], "e": type(exc).__name__ if not isinstance(exc, OSError) else "IOError",
                            "ph": self.phase, "ok": True, "msg": str(exc)[:200]})

    def mol_index(self, molecule):
        for i, m in enumerate(self.top.molecules):
            if m is molecule:
                return i
        return -1

    def positioned(self):
        return {(i, n) for i, mol in enumerate(self.top.molecules) for n in mol.nodes if "position" in mol.nodes[n]}

    def step_of(self, mol, a, b):
        vols = self.top.volumes
        va = float(vols[mol.nodes[a].get("template", mol.nodes[a]["resname"])])
        vb = float(vols[mol.nodes[b].get("template", mol.nodes[b]["resname"])])
        return self.step_fudge * 0.5 * (va + vb)

    @staticmethod
    def _key(p):
        return tuple(np.round(np.asarray(p, float), 6))

    def token(self, p):
        return self.tokens.get(self._key(p), (-1, -1))

    def snapshot(self):
        """(mol, key) -> token of its position, for every node that exists"""
        return {(i, n): (self.token(mol.nodes[n]["position"]) if "position" in mol.nodes[n] else (0, 0))
                for i, mol in enumerate(self.real_mols or self.top.molecules) for n in mol.nodes}

    # -- installation
    def install(self):
        import polyply.src.annotate_ligands as al
        import polyply.src.gen_coords as gc
        from polyply.src.backmap import Backmap
        R = self

        def patch(obj, name, new):
            self._saved.append((obj, name, obj.__dict__.get(name, None), name in obj.__dict__))
            setattr(obj, name, new)

        o_parse, o_find = al.parse_residue_spec, al._find_nodes
        o_init, o_runmol, o_split = al.AnnotateLigands.__init__, al.AnnotateLigands.run_molecule, al.AnnotateLigands.split_ligands

        def w_parse(spec):
            r = o_parse(spec)
            if R.phase == "init":
                R._sp.append(attr_record(r))
                if len(R._sp) == 2:
                    R.nparse += 1
                    R.emit("parse", R.nparse, sp=R._sp)
                    R._sp = []
            return r
        patch(al, "parse_residue_spec", w_parse)

        def w_find(molecule, attrs):
            if R.phase != "init" or R.annot is None:
                yield from o_find(molecule, attrs)
                return
            mi = R.mol_index(molecule)
            n0 = len(R.annot.ligand_defs[mi]) if mi in R.annot.ligand_defs else 0
            yield from o_find(molecule, attrs)
            new = R.annot.ligand_defs[mi][n0:] if mi in R.annot.ligand_defs else []
            R.emit("find", mi + 1, [(n0 + j + 1, int(x[0]) + 1, int(x[1]) + 1) for j, x in enumerate(new)])
        patch(al, "_find_nodes", w_find)

        def w_init(self, topology, ligands):
            R.top, R.annot, R.phase = topology, self, "init"
            R.raw["nodes_before"] = [[int(n) for n in mol.nodes] for mol in topology.molecules]
            try:
                o_init(self, topology, ligands)
            except Exception as exc:
                R.fail(exc)
                raise
            R.emit("initend")
            R.phase = "connect"
        patch(al.AnnotateLigands, "__init__", w_init)

        def w_runmol(self, meta_molecule, mol_idx):
            before = set(meta_molecule.nodes)
            try:
                r = o_runmol(self, meta_molecule, mol_idx)
            except Exception as exc:
                R.fail(exc, mol_idx + 1)
                raise
            d, ok = [], True
            for n in meta_molecule.nodes:
                if n in before:
                    continue
                nd = meta_molecule.nodes[n]
                nb = list(meta_molecule.neighbors(n))
                lig = nd.get("ligated", (-1, -1))
                d.append((int(n) + 1, (int(nb[0]) + 1) if len(nb) == 1 else 0, int(lig[0]) + 1, int(lig[1]) + 1))
                try:
                    src = R.top.molecules[lig[0]].nodes[lig[1]]
                    ok = ok and len(nb) == 1 and nd.get("build") is True and nd["resname"] == src["resname"] \
                        and nd.get("template") == src.get("template")
                except Exception:
                    ok = False
            R.emit("connect", mol_idx + 1, d, ok=bool(ok))
            if mol_idx == len(R.top.molecules) - 1:
                R.phase = "build"
            return r
        patch(al.AnnotateLigands, "run_molecule", w_runmol)

        build_cls = gc.BuildSystem if R.walk == "real" else StubBuild
        o_build_run = build_cls.run_system

        def w_build_run(self, molecules):
            R.phase = "build"
            before = R.positioned()
            try:
                r = o_build_run(self, molecules)
            except NoVerdict:
                raise
            except Exception as exc:
                R.fail(exc)
                raise
            after = R.positioned()
            near = []
            box = R.top.box
            for i, mol in enumerate(R.top.molecules):
                for n in mol.nodes:
                    if "ligated" in mol.nodes[n]:
                        b = 1
                        if R.walk == "real":
                            hn = list(mol.neighbors(n))[0]
                            dist = float(np.linalg.norm(_min_image(np.asarray(mol.nodes[n]["position"], float)
                                                                   - np.asarray(mol.nodes[hn]["position"], float), box)))
                            b = int(abs(dist - R.step_of(mol, hn, n)) < 1e-6)
                            R.raw.setdefault("steps", []).append([i, int(n), dist, R.step_of(mol, hn, n)])
                        near.append([i + 1, int(n) + 1, b])
            R.emit("build", 0, [(i + 1, int(n) + 1) for i, n in after - before], near=sorted(near))
            R.phase = "split"
            return r
        if R.walk == "real":
            patch(build_cls, "run_system", w_build_run)
        else:
            class _Stub(StubBuild):
                run_system = w_build_run
            patch(gc, "BuildSystem", _Stub)

        def w_split(self):
            R.phase = "split"
            top = R.top
            R.tokens, R.copies = {}, []
            for i, mol in enumerate(top.molecules):
                for n in mol.nodes:
                    if "position" in mol.nodes[n]:
                        R.tokens.setdefault(R._key(mol.nodes[n]["position"]), (i + 1, int(n) + 1))
                        R.tokpos.append((np.asarray(mol.nodes[n]["position"], float), (i + 1, int(n) + 1)))
                    if "ligated" in mol.nodes[n]:
                        hn = list(mol.neighbors(n))[0]
                        lm, ln = mol.nodes[n]["ligated"]
                        R.copies.append((i, int(n), int(hn), int(lm), int(ln), R.step_of(mol, hn, n) if R.walk == "real" else 0.0))
            R.raw["distinct_positions"] = len(R.tokens) == len(R.tokpos)
            real_list = top.molecules
            R.real_mols = real_list
            state = {"snap": R.snapshot(), "i": -1}

            class Spy(list):
                def __iter__(spy):
                    for i, m in enumerate(list.__iter__(spy)):
                        state["i"] = i
                        yield m
                        now = R.snapshot()
                        old = state["snap"]
                        d = [(k[0] + 1, int(k[1]) + 1, v[0], v[1]) for k, v in now.items() if k in old and old[k] != v]
                        d += [(k[0] + 1, int(k[1]) + 1, 0, 0) for k in old if k not in now]
                        ok = all(k in old for k in now)
                        state["snap"] = now
                        R.emit("split", i + 1, d, ok=ok)
            top.molecules = Spy(real_list)
            try:
                o_split(self)
            except Exception as exc:
                R.fail(exc, state["i"] + 1)
                raise
            finally:
                top.molecules = real_list
                R.real_mols = None
            R.phase = "backmap"
        patch(al.AnnotateLigands, "split_ligands", w_split)

        o_bm = Backmap.run_system

        def w_bm(self, system):
            R.phase = "backmap"
            top = R.top
            d = []
            box = top.box
            for hm, key, hn, lm, ln, step in R.copies:
                b = 0
                try:
                    lig = top.molecules[lm].nodes[ln]
                    if R.token(lig["position"]) == (hm + 1, key + 1):
                        if R.walk == "real":
                            dist = float(np.linalg.norm(_min_image(np.asarray(lig["position"], float)
                                                                   - np.asarray(top.molecules[hm].nodes[hn]["position"], float), box)))
                            b = int(abs(dist - step) < 1e-6)
                        else:
                            b = int(R.token(top.molecules[hm].nodes[hn]["position"]) == (hm + 1, hn + 1))
                except KeyError:
                    b = 0
                d.append((hm + 1, key + 1, b))
            try:
                r = o_bm(self, system)
            except Exception as exc:
                R.fail(exc)
                raise
            ok = not any("ligated" in mol.nodes[n] for mol in top.molecules for n in mol.nodes)
            R.emit("backmap", 0, d, ok=ok)
            R.phase = "write"
            return r
        patch(Backmap, "run_system", w_bm)
        return self

    def uninstall(self):
        for obj, name, old, had in reversed(self._saved):
            if had:
                setattr(obj, name, old)
            else:
                delattr(obj, name)
        self._saved = []

    # -- the written file
    def read_gro(self, path, types, case):
        lines = Path(path).read_text().splitlines()
        n = int(lines[1])
        atoms = lines[2:2 + n]
        expect = [(m, k, r) for m, name in enumerate(case["mols"]) for k, r in enumerate(types[name]["res"])]
        ok = len(atoms) == len(expect)
        d = []
        for j, line in enumerate(atoms):
            resid, rn, an = int(line[0:5]), line[5:10].strip(), line[10:15].strip()
            xyz = np.array([float(line[20:28]), float(line[28:36]), float(line[36:44])])
            best, tok = 1e9, (-1, -1)
            for p, t in self.tokpos:
                dd = float(np.max(np.abs(p - xyz)))
                if dd < best:
                    best, tok = dd, t
            if best > 2e-3:
                tok = (-1, -1)
            if j < len(expect):
                m, k, r = expect[j]
                ok = ok and resid == r["id"] and rn == r["rn"][:5] and an == atomname(r["rn"])
                d.append((j + 1, m + 1, k + 1, tok[0], tok[1]))
        self.emit("write", 0, d, ok=bool(ok))


# ----------------------------------------------------------------------------- running one case

def _alarm(signum, frame):
    raise NoVerdict("time-out in the random walk")


def run_case(types, case, wd, walk="stub", seed=0, variant=0, timeout=20):
    """Run the real gen_coords on the rendered case; returns {"events": [...], "raw": {...}, "noverdict": str | None}."""
    import polyply.src.gen_coords as gc
    top, coord = write_inputs(types, case, wd, variant)
    out = Path(wd) / "out.gro"
    if out.exists():
        out.unlink()
    rec = Recorder(walk).install()
    noverdict = None
    old = signal.signal(signal.SIGALRM, _alarm)
    signal.alarm(timeout)
    try:
        np.random.seed(seed)
        random.seed(seed)
        try:
            gc.gen_coords(toppath=top, outpath=out, name="x04", ligands=lig_args(case), coordpath=coord,
                          box=np.array([BOX, BOX, BOX]), maxiter=200)
            rec.phase = "write"
            try:
                rec.read_gro(out, types, case)
            except Exception as exc:
                rec.fail(exc)
        except NoVerdict as exc:
            noverdict = str(exc)
        except Exception as exc:
            if not rec.events or rec.events[-1]["op"] != "fail":
                rec.fail(exc)          # an exception outside the wrapped calls (phase says where)
            rec.raw["exception"] = "%s: %s" % (type(exc).__name__, str(exc)[:300])
    finally:
        signal.alarm(0)
        signal.signal(signal.SIGALRM, old)
        rec.uninstall()
    return {"events": rec.events, "raw": rec.raw, "noverdict": noverdict}


# ----------------------------------------------------------------------------- comparison with an exported behaviour

def expected_events(case, hist):
    """the event sequence an exported behaviour predicts (a failing Parse shows as a parse event followed by the failure)"""
    out = []
    for x in hist:
        d = sorted([int(v) for v in t] for t in x["d"])
        if x["e"]:
            if x["op"] == "parse":
                out.append({"op": "parse", "a": x["a"], "d": [], "sp": True})
            out.append({"op": "fail", "e": x["e"], "ph": PHASE[x["op"]], "a": x["a"] if x["op"] in ("connect", "split") else None})
        else:
            out.append({"op": x["op"], "a": x["a"], "d": d, "sp": x["op"] == "parse"})
    return out


def compare(case, hist, events, walk):
    """None when the recorded events are the exported behaviour, else (index, description)"""
    exp = expected_events(case, hist)
    for i, x in enumerate(exp):
        if i >= len(events):
            return i, "the run stopped after %d events, the specification continues with %s" % (len(events), x)
        ev = events[i]
        if x["op"] == "fail":
            if ev["op"] != "fail":
                return i, "expected %s in phase %s, the code went on with %s" % (x["e"], x["ph"], {k: ev[k] for k in ("op", "a", "d")})
            if ev["e"] != x["e"] or ev["ph"] != x["ph"] or (x["a"] is not None and ev["a"] != x["a"]):
                return i, "expected %s in phase %s (molecule %s), got %s in phase %s (molecule %s): %s" % (
                    x["e"], x["ph"], x["a"], ev["e"], ev["ph"], ev["a"], ev.get("msg", ""))
            continue
        if ev["op"] == "fail":
            return i, "expected %s, the code raised %s in phase %s: %s" % ({k: x[k] for k in ("op", "a", "d")}, ev["e"], ev["ph"], ev.get("msg", ""))
        if ev["op"] != x["op"] or ev["a"] != x["a"]:
            return i, "expected action %s(%s), observed %s(%s)" % (x["op"], x["a"], ev["op"], ev["a"])
        if not ev.get("ok", True):
            return i, "observation check failed at %s(%s): %s" % (ev["op"], ev["a"], ev)
        if x["op"] == "parse":
            o = case["ligs"][x["a"] - 1]
            if ev["sp"] != [o["h"], o["l"]]:
                return i, "parse_residue_spec returned %s for %s" % (ev["sp"], [o["h"], o["l"]])
            continue
        if ev["d"] != x["d"]:
            return i, "after %s(%s): specification %s, code %s" % (x["op"], x["a"], x["d"], ev["d"])
        if x["op"] == "build" and any(t[2] != 1 for t in ev.get("near", [])):
            return i, "an extra node is not one step from its anchor: %s" % ev["near"]
    if len(events) > len(exp):
        return len(exp), "the specification ends, the code continued with %s" % {k: events[len(exp)].get(k) for k in ("op", "a", "d", "e")}
    return None
