"""I->S for C01 / C14 (spec/FFTrace.tla): seeded random inputs beyond the exhaustive bound and library force fields are run
through the real polyply code; (abstract input, observed molecule after each processor, observed link applications) records are
validated by TLC, which runs the I-layer of FFMap on the recorded input and evaluates the P-layer.

Python only draws inputs, renders them as files, runs / observes the code and projects objects; verdicts come from TLC.
"""
import json
import os
import random
import sys
from pathlib import Path

from . import common as c
from . import ffmap_util as u

QS = ["0.0", "0.5", "-0.5", "0.25", "-0.25", "1.0", "-1.0", "0.125"]
MS = ["12.0", "14.0", "16.0", "36.0", "45.0", "72.0", "1.0"]
TYPES = ["C1", "P2", "Qa", "SN1", "OA", "CH2", "TC3"]
SECTIONS = ["bonds", "angles", "dihedrals", "constraints", "exclusions", "pairs", "virtual_sites2", "virtual_sites3",
            "position_restraints"]
SEC_N = {"bonds": 2, "angles": 3, "dihedrals": 4, "constraints": 2, "exclusions": 2, "pairs": 2, "virtual_sites2": 3, "virtual_sites3": 4,
         "position_restraints": 1, "impropers": 4}
SEC_PAR = {"bonds": 3, "angles": 3, "dihedrals": 4, "constraints": 2, "exclusions": 0, "pairs": 1, "virtual_sites2": 2, "virtual_sites3": 3,
           "position_restraints": 4, "impropers": 3}


# --------------------------------------------------------------------------- seeded random inputs

def _params(rng, sec, salt):
    n = SEC_PAR[sec]
    if n == 0:
        return []
    first = {"bonds": "1", "angles": "2", "dihedrals": "9", "constraints": "1", "pairs": "1", "virtual_sites2": "1", "virtual_sites3": "1",
             "position_restraints": "1", "impropers": "2"}[sec]
    return [first] + ["%d.%03d" % (rng.randrange(0, 400), (salt * 37 + rng.randrange(1000)) % 1000) for _ in range(n - 1)]


def _rand_inters(rng, n, sections, allow_dup, bonded_only=False):
    """random interaction list of a block with n atoms; atom tuples are distinct inside a section unless allow_dup draws a
    second entry on the same atoms (with a version tag, or - rarely - without: finding F30)"""
    inters = []
    chain = list(range(1, n + 1))
    for a in range(1, n):         # a connected backbone so that link-made bonds give distances
        if bonded_only or rng.random() < 0.9:
            sec = "constraints" if rng.random() < 0.2 else "bonds"
            inters.append({"sec": sec, "at": [a, a + 1], "par": _params(rng, sec, a), "ver": "i1"})
    for sec in sections:
        if SEC_N[sec] > n or sec in ("bonds", "constraints"):
            continue
        seen = set()
        for _ in range(rng.randint(1, 3)):
            at = rng.sample(chain, SEC_N[sec])
            if tuple(at) in seen or tuple(at[::-1]) in seen:
                continue
            seen.add(tuple(at))
            inters.append({"sec": sec, "at": at, "par": _params(rng, sec, len(inters)), "ver": "i1"})
            r = rng.random()
            if allow_dup and sec == "dihedrals" and r < 0.25:     # multi-term entry, properly tagged
                inters[-1]["ver"] = "s1"
                inters.append({"sec": sec, "at": list(at), "par": _params(rng, sec, 77 + len(inters)), "ver": "s2"})
            elif allow_dup and sec == "dihedrals" and r < 0.30:   # multi-term entry without tags
                inters.append({"sec": sec, "at": list(at), "par": _params(rng, sec, 91 + len(inters)), "ver": "i1"})
    order = []
    for x in inters:
        if x["sec"] not in order:
            order.append(x["sec"])
    inters.sort(key=lambda x: order.index(x["sec"]))     # a file lists a section once
    return inters


def _add_occ(inters):
    seen = {}
    for x in inters:
        k = json.dumps(u.canon_inter(x))
        seen[k] = seen.get(k, 0) + 1
        x["occ"] = seen[k]
    return inters


def _edges_of(inters):
    e = []
    for x in inters:
        if x["sec"] in ("bonds", "constraints"):
            p = [x["at"][0], x["at"][1]]
            if p not in e:
                e.append(p)
    return e


def rand_block(rng, name, n, nrexcl, sections, allow_dup, bonded_only=False):
    cg = 1
    atoms = []
    for a in range(n):
        if a and rng.random() < 0.4:
            cg += 1
        atoms.append({"an": "a%d" % (a + 1), "ty": rng.choice(TYPES), "q": rng.choice(QS), "m": rng.choice(MS), "cg": cg, "res": 1, "rn": name})
    inters = _add_occ(_rand_inters(rng, n, sections, allow_dup, bonded_only))
    return {"name": name, "nrexcl": nrexcl, "atoms": atoms, "inters": inters, "edges": _edges_of(inters)}


def rand_multiblock(rng, name, nres, nrexcl):
    atoms, cg = [], 0
    for r in range(nres):
        cg += 1
        for a in range(rng.randint(1, 3)):
            atoms.append({"an": "a%d" % (a + 1), "ty": rng.choice(TYPES), "q": rng.choice(QS), "m": rng.choice(MS), "cg": cg, "res": r + 1,
                          "rn": "%s%d" % (name[0], r + 1)})
    n = len(atoms)
    inters = [{"sec": "bonds", "at": [a, a + 1], "par": _params(rng, "bonds", a), "ver": "i1"} for a in range(1, n)]
    if n >= 3:
        inters.append({"sec": "angles", "at": [1, 2, 3], "par": _params(rng, "angles", 5), "ver": "i1"})
    _add_occ(inters)
    return {"name": name, "nrexcl": nrexcl, "atoms": atoms, "inters": inters, "edges": _edges_of(inters)}


def rand_graph(rng, n, cyc):
    edges = set()
    for i in range(2, n + 1):
        j = i - 1 if rng.random() < 0.7 else rng.randint(1, i - 1)
        edges.add((j, i))
    for _ in range(cyc):
        a, b = sorted(rng.sample(range(1, n + 1), 2))
        edges.add((a, b))
    return edges


def rand_case(rng, prop, idx):
    """one abstract force field + input in the shape FFMap uses"""
    c14 = prop == "C14"
    nbl = rng.randint(2, 3)
    names = ["RA", "RB", "RC"][:nbl]
    uni = rng.randint(1, 3)
    sections = [] if c14 else rng.sample(SECTIONS, rng.randint(2, 5))
    if c14 and rng.random() < 0.5:
        sections = ["exclusions"]
    blocks = []
    for nm in names:
        e = rng.randint(0, 4) if c14 else uni
        blocks.append(rand_block(rng, nm, rng.randint(1, 5), e, sections, allow_dup=not c14, bonded_only=c14))
    multi = None
    if rng.random() < (0.3 if c14 else 0.6):
        multi = rand_multiblock(rng, "XM", rng.randint(2, 3), rng.randint(0, 4) if c14 else uni)
        blocks.append(multi)
    if c14 and rng.random() < 0.25:           # uniform distance: nothing may be invented
        for b in blocks:
            b["nrexcl"] = uni
    n = rng.randint(5, 8)
    kinds, i = [], 0
    rn, fi = [], []
    while i < n:
        if multi is not None and rng.random() < 0.35:
            nres = max(a["res"] for a in multi["atoms"])
            if i + nres <= n:
                for r in range(nres):
                    rn.append("%s%d" % (multi["name"][0], r + 1))
                    fi.append(multi["name"])
                i += nres
                continue
        rn.append(rng.choice(names))
        fi.append("")
        i += 1
    edges = rand_graph(rng, n, rng.choice([0, 0, 1, 2]))
    for p in range(1, n):                     # the residues of one copy are bonded along the chain
        if fi[p - 1] and fi[p]:
            edges.add((p, p + 1))
    # the [ atoms ] of a block may carry residue names other than the block name / the names of the residue-graph nodes
    for b in blocks:
        if rng.random() < 0.3:
            for a in b["atoms"]:
                a["rn"] = ("Q" + a["rn"])[:4]
    allrn = sorted(set(rn) | set(names) | {a["rn"] for b in blocks for a in b["atoms"]})

    def link_names(block_name):
        # ApplyLinks first compares a link's residue names with the residue names of the *atoms* of the molecule and later with
        # those of the residue nodes: a link meant for a residue lists both (which names a link needs is C02's business)
        return sorted({block_name} | {a["rn"] for b in blocks if b["name"] == block_name for a in b["atoms"]})
    links = []
    for _ in range(rng.randint(1, 3)):
        ordr = rng.choice(["+", "+", ">"])
        links.append({"kind": "bond", "ord": ordr, "rns": allrn, "a": "a%d" % rng.randint(1, 3), "b": "a%d" % rng.randint(1, 2),
                      "sec": "constraints" if rng.random() < 0.15 else "bonds", "par": _params(rng, "bonds", 50 + len(links)),
                      "xb": ("a%d" % rng.randint(1, 3)) if c14 and rng.random() < 0.3 else ""})
    for l in links:
        if l["sec"] == "constraints":
            l["par"] = l["par"][:2]
    if c14 and rng.random() < 0.35:
        # an explicit (by_atom_id) link: a bond between two atoms given by their numbers in the molecule (cross-link, ring closure);
        # the number of atoms follows from the block sizes (no atom is removed in these force fields)
        size = {b["name"]: b for b in blocks}
        total, r = 0, 0
        while r < n:
            if fi[r]:
                total += len(size[fi[r]]["atoms"])
                r += max(a["res"] for a in size[fi[r]]["atoms"])
            else:
                total += len(size[rn[r]]["atoms"])
                r += 1
        if total >= 4:
            i, j = sorted(rng.sample(range(1, total + 1), 2))
            links.append({"kind": "explicit", "ord": "0", "rns": [], "a": "", "b": "", "sec": "bonds", "par": _params(rng, "bonds", 99), "xb": "",
                          "ex": [i, j]})
    big = [b["name"] for b in blocks if b is not multi and len(b["atoms"]) >= 2]
    if not c14 and big and rng.random() < 0.35:      # never the only atom of a residue: every residue stays in the molecule
        links.append({"kind": "remove", "ord": "0", "rns": link_names(rng.choice(big)), "a": "a%d" % rng.randint(1, 3), "b": "", "sec": "", "par": [], "xb": ""})
    if not c14 and rng.random() < 0.35:
        links.append({"kind": "retype", "ord": "0", "rns": link_names(rng.choice(names)), "a": "a%d" % rng.randint(1, 2), "b": "", "sec": "",
                      "par": [rng.choice(TYPES), rng.choice(QS)], "xb": ""})
    # two bond links must not write the same (atoms, version) with the same definition index: a later link wins, no ties
    for l in links:
        l.setdefault("ex", [])
    ff = {"blocks": blocks, "links": links, "mods": []}
    hist = []
    if c14 and rng.random() < 0.35 and not any(l["kind"] == "explicit" for l in links):
        # (not with explicit links: they address the atoms of one particular molecule by number)
        # one force-field object serves several molecules in one process: one or two chains of the regular blocks are built first
        for _ in range(rng.randint(1, 2)):
            hist.append([rng.choice(names) for _ in range(rng.randint(2, 3))])
    start = 1 if rng.random() < 0.3 else rng.randint(1, 12)
    inp = {"ff": idx + 1, "n": n, "start": start, "rn": rn, "fi": fi, "edges": sorted([list(e) for e in edges]), "sel": [], "hist": hist}
    return ff, inp


# --------------------------------------------------------------------------- observing the real code

FIELD = {"atomname": "an", "atype": "ty", "charge": "q", "mass": "m", "resname": "rn"}


class Recorder:
    """wraps MapToMolecule.run_molecule, ApplyLinks.apply_link_between_residues / run_molecule and
    ApplyModifications.run_molecule from the harness; one record per I-layer step"""

    def __init__(self):
        from polyply.src import map_to_molecule as m2m, apply_links as al, apply_modifications as am
        self.m2m, self.al, self.am = m2m, al, am
        self.orig = {}
        self.reset()

    def reset(self):
        self.rec = {"apps": [], "unsupported": []}

    def install(self):
        rec = self
        m2m, al, am = self.m2m, self.al, self.am
        for cls, name in ((m2m.MapToMolecule, "run_molecule"), (al.ApplyLinks, "apply_link_between_residues"), (al.ApplyLinks, "run_molecule"),
                          (am.ApplyModifications, "run_molecule")):
            if not hasattr(cls, name):
                raise c.MachineryError("interposition target %s.%s not found" % (cls.__name__, name))
            self.orig[(cls, name)] = getattr(cls, name)
        o_map = self.orig[(m2m.MapToMolecule, "run_molecule")]
        o_app = self.orig[(al.ApplyLinks, "apply_link_between_residues")]
        o_lnk = self.orig[(al.ApplyLinks, "run_molecule")]
        o_mod = self.orig[(am.ApplyModifications, "run_molecule")]

        def run_map(self, meta_molecule):
            ff = self.force_field
            rec.rec["nrexcl0"] = {name: b.nrexcl for name, b in ff.blocks.items()}
            rec.rec["graph"] = project_graph(meta_molecule)
            out = o_map(self, meta_molecule)
            rec.rec["n2b"] = dict(self.node_to_block)
            rec.rec["ffobj"] = ff
            p = u.project_mol(meta_molecule.molecule)
            p["gattr"] = u.project_meta(meta_molecule, p)
            p.pop("_idx")
            rec.rec["base"] = p
            return out

        def apply_link(self, meta_molecule, link, link_to_resid):
            try:
                l2m = al.match_link_and_residue_atoms(meta_molecule, link, link_to_resid)
            except Exception:
                l2m = None
            out = o_app(self, meta_molecule, link, link_to_resid)      # raises MatchError when the link does not apply
            mol = meta_molecule.molecule
            idx = {n: i + 1 for i, n in enumerate(mol.nodes)}
            app = {"lk": len(rec.rec["apps"]) + 1, "rep": [], "rem": [], "ints": []}
            for node in link.nodes:
                repl = link.nodes[node].get("replace", {})
                if repl.get("atomname", False) is None:
                    app["rem"].append(idx[l2m[node]])
                    continue
                for key, val in repl.items():
                    if key in FIELD:
                        app["rep"].append({"a": idx[l2m[node]], "f": FIELD[key], "v": u.fnum(val) if key in ("charge", "mass") else str(val)})
                    else:
                        rec.rec["unsupported"].append("link replaces attribute %s" % key)
            for sec, lst in link.interactions.items():
                for x in lst:
                    atoms = tuple(l2m[a] for a in x.atoms)
                    key = (*atoms, x.meta.get("version", 1))
                    new = self.applied_links[sec][key][0]
                    app["ints"].append({"sec": sec, "at": [idx[a] for a in atoms], "par": [str(p) for p in new.parameters], "ver": u.ver_of(new.meta), "occ": 1})
            rec.rec["apps"].append(app)
            return out

        def run_links(self, meta_molecule):
            out = o_lnk(self, meta_molecule)
            rec.rec["links_done"] = True
            return out

        def run_mods(self, meta_molecule):
            out = o_mod(self, meta_molecule)
            p = u.project_mol(meta_molecule.molecule)
            p["gattr"] = u.project_meta(meta_molecule, p)
            p.pop("_idx")
            rec.rec["final"] = p
            rec.rec["mods_applied"] = bool(meta_molecule.molecule.force_field.modifications)
            return out
        m2m.MapToMolecule.run_molecule = run_map
        al.ApplyLinks.apply_link_between_residues = apply_link
        al.ApplyLinks.run_molecule = run_links
        am.ApplyModifications.run_molecule = run_mods

    def remove(self):
        for (cls, name), f in self.orig.items():
            setattr(cls, name, f)


def project_graph(mm):
    nodes = sorted(mm.nodes, key=lambda n: mm.nodes[n]["resid"])
    pos = {n: i + 1 for i, n in enumerate(nodes)}
    resids = [mm.nodes[n]["resid"] for n in nodes]
    return {"n": len(nodes), "start": resids[0], "resids": resids, "rn": [mm.nodes[n]["resname"] for n in nodes],
            "fi": [mm.nodes[n].get("from_itp", "") or "" for n in nodes],
            "edges": sorted(sorted((pos[a], pos[b])) for a, b in mm.edges)}


def project_block(block, nrexcl):
    import networkx as nx
    nodes = list(block.nodes)
    pos = {n: i + 1 for i, n in enumerate(nodes)}
    rs = sorted(set(block.nodes[n].get("resid", 1) for n in nodes))
    atoms = []
    for n in nodes:
        d = block.nodes[n]
        atoms.append({"an": d.get("atomname"), "ty": d.get("atype"), "q": u.fnum(d.get("charge")), "m": u.fnum(d.get("mass")),
                      "cg": d.get("charge_group", 1), "res": rs.index(d.get("resid", 1)) + 1, "rn": d.get("resname", block.name)})
    inters = []
    for sec, lst in block.interactions.items():
        for x in lst:
            inters.append({"sec": sec, "at": [pos[a] for a in x.atoms], "par": [str(p) for p in x.parameters], "ver": u.ver_of(x.meta)})
    _add_occ(inters)
    return {"name": block.name, "nrexcl": nrexcl, "atoms": atoms, "inters": inters, "edges": sorted(sorted((pos[a], pos[b])) for a, b in block.edges),
            "resids": rs}


def with_occ(mol):
    m = dict(mol)
    m["inters"] = _add_occ([dict(x) for x in mol["inters"]])
    m["hasGattr"] = mol.get("gattr") is not None
    if not m["hasGattr"]:
        m["gattr"] = []
    m["hasVer"] = bool(m["hasGattr"])      # the .itp reader drops the version comments, objects keep them
    m.pop("name", None)
    return m


DUMMY = {"atoms": [], "inters": [], "gattr": [], "hasGattr": False, "hasVer": False, "nrexcl": 0}


# --------------------------------------------------------------------------- workers

def _random_chunk(arg):
    items, prop, wd, sd = arg
    out = []
    for gi, ff, inp in items:
        rng = random.Random(sd * 7919 + gi)
        fmt = rng.choice(["ff", "itp"])
        if not u.can_render(ff, fmt) or (prop == "C14" and any(x["sec"] == "exclusions" for b in ff["blocks"] for x in b["inters"])):
            fmt = "ff"
        # the order of the files on the command line is drawn too (F33, repaired: an .itp read after a .ff must leave it alone)
        paths = u.render_ff(ff, fmt, Path(wd) / ("c%d" % gi), tag="f", itp_first=rng.random() < 0.5)
        lay = u.graph_layout(inp, rng)
        if gi % 3 == 0 and not inp.get("hist"):       # through the real entry point and the written file (one molecule per process)
            obs = u.run_gen_params(paths, inp, lay, Path(wd) / ("c%d" % gi))
            obs["via"] = "gen_params"
        else:
            obs = u.run_processors(paths, inp, lay)
            obs["via"] = "processors"
        obs["fmt"], obs["layout"] = fmt, lay
        out.append((gi, obs))
    return out


def _library_chunk(arg):
    items, wd = arg
    from polyply.src.gen_itp import gen_params
    rec = Recorder()
    rec.install()
    out = []
    try:
        for li, (lib, seq, inpath, seqf, name) in items:       # li: index of the run in the whole list (unique output file)
            rec.reset()
            o = Path(wd) / ("lib_%s_%d.itp" % (lib, li))
            if o.exists():
                o.unlink()
            argv = sys.argv
            r = {"lib": lib, "seq": seq, "name": name}
            try:
                with u.time_limit(120):
                    sys.argv = ["polyply", "gen_params"]
                    gen_params(name=name, outpath=o, inpath=[Path(p) for p in inpath], lib=[lib], seq=seq, seq_file=Path(seqf) if seqf else None)
                try:
                    r["itp"] = u.read_itp(o)
                except u.ReaderUnknown as exc:
                    r["itp_skip"] = str(exc)
            except u.CaseTimeout:
                r["exc"] = {"type": "HANG", "msg": "no return within 120 s", "site": "", "stage": "gen_params"}
            except c.MachineryError:
                raise
            except Exception as exc:
                d = u.describe_exc(exc)
                d["stage"] = "gen_params"
                r["exc"] = d
            finally:
                sys.argv = argv
            rr = rec.rec
            if "graph" in rr and "n2b" in rr:
                ffobj = rr["ffobj"]
                used = []
                for b in rr["n2b"].values():
                    if b not in used:
                        used.append(b)
                r["blocks"] = [project_block(ffobj.blocks[b], rr["nrexcl0"][b]) for b in used]
                r["graph"] = rr["graph"]
                r["base"] = rr.get("base")
                r["final"] = rr.get("final")
                r["apps"] = rr["apps"]
                r["unsupported"] = rr["unsupported"]
                r["has_mods"] = bool(ffobj.modifications)
            out.append(r)
    finally:
        rec.remove()
    return out


# --------------------------------------------------------------------------- documents and TLC

def make_case(inp, obs, use_apps=False, apps=()):
    raised = "exc" in obs
    base = with_occ(obs["base"]) if obs.get("base") else dict(DUMMY)
    final = with_occ(obs["final"]) if obs.get("final") else dict(DUMMY)
    return {"inp": inp, "useApps": use_apps, "apps": list(apps), "raised": raised, "hasBase": bool(obs.get("base")),
            "base": base, "final": final}


BATCH = 40     # records per TLC invocation: FFTrace re-reads the document at every reference, so documents stay small


def _validate_one(args):
    prop, doc, name, asis = args
    wd = c.workdir(prop, "trace_" + name)
    f = wd / "doc.json"
    f.write_text(json.dumps(doc))
    cfg = wd / "trace.cfg"
    src = (c.SPEC / ("FF_trace_asis.cfg" if asis else "FF_trace.cfg")).read_text().replace('Prop = "C01"', 'Prop = "%s"' % prop)
    cfg.write_text(src)
    res = c.tlc("FFTrace", cfg, workers=1, env={"TRACE_FILE": str(f)}, check=False, timeout=3000)
    v = res.tagged("VERDICTS")
    if res.rc != 0 or not v:
        raise c.MachineryError("FFTrace failed on %s (rc=%s): %s" % (name, res.rc, res.out[-3000:]))
    return res, v[0]


def validate(ck, prop, doc, name, asis=False, count=True):
    """run FFTrace on a document (in batches, concurrently); returns {case id (1-based): [(stage, verdict, fired), ...]}"""
    from concurrent.futures import ThreadPoolExecutor
    cases = doc["cases"]
    jobs = []
    for k in range(0, max(1, len(cases)), BATCH):
        sub = cases[k:k + BATCH]
        used = sorted({x["inp"]["ff"] for x in sub})          # only the force fields this batch needs
        remap = {ff: i + 1 for i, ff in enumerate(used)}
        sub = [dict(x, inp=dict(x["inp"], ff=remap[x["inp"]["ff"]])) for x in sub]
        jobs.append((k, (prop, {"ffs": [doc["ffs"][ff - 1] for ff in used], "cases": sub}, "%s_%d" % (name, k // BATCH), asis)))
    with ThreadPoolExecutor(max(1, min(len(jobs), max(2, c.NPROC // 2)))) as ex:
        outs = list(ex.map(lambda j: _validate_one(j[1]), jobs))
    by = {}
    for (k, _), (res, ents) in zip(jobs, outs):
        if count:
            ck.add_tlc(res)
        for ent in ents:
            tid, stage, verdict, fired = ent[0], ent[1], ent[2], ent[3]
            by.setdefault(int(tid) + k, []).append((stage, verdict, tuple(fired) if not isinstance(fired, dict) else ()))
    return by


def accepted(case, ents):
    """a record is accepted iff some behaviour of the model has verdict ok at every stage the code reached"""
    if case["raised"]:
        return False, None
    finals = [f for st, v, f in ents if st == "final" and v == "ok"]
    bases = [f for st, v, f in ents if st == "base" and v == "ok"]
    for ff in sorted(finals, key=len):       # the deviations fired so far only grow along a behaviour
        if not case["hasBase"] or any(set(fb) <= set(ff) for fb in bases):
            return True, ff
    return False, None


def first_bad(ents):
    bad = ["%s: %s" % (stage, verdict) for stage, verdict, fired in sorted(ents) if verdict not in ("ok", "no-observation")]
    return "; ".join(bad) if bad else "no verdict"


def exc_matches(exc, verdict):
    return False       # no finding is open: every exception of the code is a violation (hook kept for future open findings)


def judge(ck, prop, doc, metas, name):
    """validate a document, classify rejected records with the open deviations switched on, report; returns #accepted"""
    by = validate(ck, prop, doc, name)
    ck.evaluations += len(doc["cases"])
    rejected = []
    nacc = 0
    for i, case in enumerate(doc["cases"]):
        ok, _ = accepted(case, by.get(i + 1, []))
        if ok:
            nacc += 1
            ck.nontrivial.add(name + json.dumps(case["inp"], sort_keys=True)[:400] + str(case["inp"]["ff"]))
        else:
            rejected.append(i)
    ck.traces += nacc
    if rejected:
        sub = {"ffs": doc["ffs"], "cases": [doc["cases"][i] for i in rejected]}
        # with an open finding the rejected records are re-validated with DevAsIs to classify them exactly
        by2 = validate(ck, prop, sub, name + "_asis", asis=True, count=False) if u.OPEN[prop] else {}
        for j, i in enumerate(rejected):
            case, meta = doc["cases"][i], metas[i]
            ents = by2.get(j + 1, [])
            sig = None
            if case["raised"]:
                for stage, verdict, fired in ents:
                    if fired and exc_matches(meta["exc"], verdict):
                        sig = u.attribute(fired, verdict.split(":", 1)[1])
            else:
                ok, fired = accepted(case, ents)
                if ok and fired:
                    sig = u.attribute(fired)
            why = ("the code raised %s at %s: %s" % (meta["exc"]["type"], meta["exc"]["site"], meta["exc"]["msg"][:160])) if case["raised"] \
                else "record rejected by FFTrace at " + first_bad(by.get(i + 1, []))
            rep = {"kind": "I->S record", "name": name, "ff": doc["ffs"][case["inp"]["ff"] - 1], "case": case, "meta": meta}
            ck.violation(rep, sig=sig, what="%s [%s]: residues %s first id %d: %s" % (name, meta.get("via", ""), case["inp"]["rn"], case["inp"]["start"], why))
    return nacc, by


def random_doc(prop, n, sd, wd):
    rng = random.Random(sd + (14 if prop == "C14" else 1))
    ffs, inps = [], []
    for i in range(n):
        ff, inp = rand_case(rng, prop, i)
        ffs.append(ff)
        inps.append(inp)
    items = [(i, ffs[i], inps[i]) for i in range(n)]
    parts = [(ch, prop, str(wd), sd) for ch in c.chunks(items, c.NPROC * 2)]
    obs = {}
    for out in c.pmap(_random_chunk, parts):
        for gi, o in out:
            obs[gi] = o
    cases, metas = [], []
    for i in range(n):
        cases.append(make_case(inps[i], obs[i]))
        metas.append({"via": obs[i]["via"], "fmt": obs[i]["fmt"], "layout": obs[i]["layout"], "exc": obs[i].get("exc")})
    return {"ffs": ffs, "cases": cases}, metas


LIB_QUICK = [("martini3", ["PEO:4"]), ("martini3", ["PS:3"]), ("martini3", ["P3HT:3"]), ("martini2", ["PEO:4"]), ("martini2", ["PS:3"]),
             ("2016H66", ["PMA:3"]), ("2016H66", ["PEO:4"]), ("gromos53A6", ["P3HT:3"]), ("oplsaaLigParGen", ["PEO:3"]),
             ("ibi_cgm3", ["PTMA:3"]), ("martini3", ["PEO:2", "PS:2"]), ("2016H66", ["PE:2", "PEO:2"])]


def library_items(tier):
    from polyply import DATA_PATH, TEST_DATA
    items = [(lib, seq, [], None, "lib") for lib, seq in LIB_QUICK]
    if tier != "quick":
        import shlex
        from polyply.src.load_library import load_ff_library
        for lib in sorted(os.listdir(DATA_PATH)):
            if lib.startswith("_") or not os.path.isdir(os.path.join(DATA_PATH, lib)):
                continue
            try:
                ff = load_ff_library("x", [lib], [])
            except Exception:
                continue
            for b in sorted(ff.blocks):
                items.append((lib, ["%s:3" % b], [], None, "lib"))
        root = Path(TEST_DATA) / "library_tests"
        for cmdf in sorted(root.glob("*/*/polyply/command")):
            tok = shlex.split(cmdf.read_text().split("\n")[0])
            a = {"lib": None, "seq": None, "seqf": None, "f": [], "name": "mol", "dsdna": "-dsdna" in tok}
            i = 2
            while i < len(tok):
                if tok[i] == "-lib":
                    a["lib"] = tok[i + 1]; i += 2
                elif tok[i] == "-seq":
                    j = i + 1
                    a["seq"] = []
                    while j < len(tok) and not tok[j].startswith("-"):
                        a["seq"].append(tok[j]); j += 1
                    i = j
                elif tok[i] == "-seqf":
                    a["seqf"] = str((cmdf.parent / tok[i + 1]).resolve()); i += 2
                elif tok[i] == "-f":
                    a["f"] = [str((cmdf.parent / tok[i + 1]).resolve())]; i += 2
                elif tok[i] == "-name":
                    a["name"] = tok[i + 1]; i += 2
                else:
                    i += 1
            if a["dsdna"] or not a["lib"]:
                continue
            items.append((a["lib"], a["seq"], a["f"], a["seqf"], a["name"]))
    return items


def library_doc(ck, tier, wd, max_atoms=400):
    items = library_items(tier)
    # every run writes its own file: the chunks run in parallel in one directory
    parts = [(ch, str(wd)) for ch in c.chunks(list(enumerate(items)), c.NPROC)]
    recs = [r for out in c.pmap(_library_chunk, parts) for r in out]
    ffs, cases, metas = [], [], []
    skipped = {}

    def skip(why):
        skipped[why] = skipped.get(why, 0) + 1
    for r in recs:
        if "graph" not in r:
            skip("no MapToMolecule record (%s)" % (r.get("exc", {}).get("type")))
            continue
        g = r["graph"]
        if g["resids"] != list(range(g["start"], g["start"] + g["n"])):
            skip("residue ids not contiguous")
            continue
        if r["unsupported"]:
            skip(r["unsupported"][0])
            continue
        if r.get("has_mods") and any(x in ("GLY", "ALA", "CYS", "VAL", "LEU", "ILE", "MET", "PRO", "HYP", "ASN", "GLN", "ASP", "GLU", "THR", "SER",
                                               "LYS", "ARG", "HIS", "PHE", "TYR", "TRP") for x in g["rn"]):
            skip("protein with library modifications (covered by instance M)")
            continue
        if any(b["resids"][0] != 1 or b["resids"] != list(range(1, len(b["resids"]) + 1)) for b in r["blocks"]):
            skip("block residue ids do not start at 1")
            continue
        if r.get("base") and len(r["base"]["atoms"]) > max_atoms:
            skip("more than %d atoms" % max_atoms)
            continue
        for b in r["blocks"]:
            b.pop("resids")
        ffs.append({"blocks": r["blocks"], "links": [], "mods": []})
        inp = {"ff": len(ffs), "n": g["n"], "start": g["start"], "rn": g["rn"], "fi": g["fi"], "edges": g["edges"], "sel": []}
        obs = {"base": r.get("base"), "final": r.get("final")}
        if "exc" in r:
            obs["exc"] = r["exc"]
        cases.append(make_case(inp, obs, use_apps=True, apps=r["apps"]))
        metas.append({"via": "gen_params -lib %s %s" % (r["lib"], r["seq"] or "-seqf"), "exc": r.get("exc"), "itp": r.get("itp")})
    ck.extra["library_runs"] = {"attempted": len(items), "validated_by_FFTrace": len(cases), "skipped": skipped}
    return {"ffs": ffs, "cases": cases}, metas


def itp_agrees(ck, prop, doc, metas):
    """the written .itp must show the molecule the processors left (atoms, interactions modulo writer symmetries)"""
    n = 0
    for case, meta in zip(doc["cases"], metas):
        if not meta.get("itp") or case["raised"]:
            continue
        n += 1
        d = u.diff_mol(case["final"], meta["itp"], with_ver=False, gattr=False, what="written .itp vs molecule", itp=True)
        if d:
            ck.violation({"kind": "itp", "case": case, "itp": meta["itp"]}, what="%s: %s" % (meta["via"], d))
    return n


def run_traces(ck, prop, tier, sd):
    quick = tier == "quick"
    wd = c.workdir(prop, "traces")
    nrand = 60 if quick else (600 if prop == "C01" else 300)
    doc, metas = random_doc(prop, nrand, sd, wd)
    ck.sample({"I->S input": doc["cases"][0]["inp"], "observed final atoms": doc["cases"][0]["final"]["atoms"][:3]})
    nacc, by = judge(ck, prop, doc, metas, "random")
    ck.extra["random_records"] = {"n": nrand, "accepted": nacc, "via_gen_params": sum(1 for m in metas if m["via"] == "gen_params")}
    if prop == "C01":
        ldoc, lmetas = library_doc(ck, tier, wd)
        if ldoc["cases"]:
            nl, _ = judge(ck, prop, ldoc, lmetas, "library")
            ck.extra["library_runs"]["accepted"] = nl
            ck.extra["library_runs"]["itp_compared"] = itp_agrees(ck, prop, ldoc, lmetas)
    # binding demonstration: a corrupted record must be rejected
    good = [i for i, case in enumerate(doc["cases"]) if accepted(case, by.get(i + 1, []))[0]]
    if not good:
        if ck.violations:       # nothing was accepted because the code misbehaves on everything: the verdict is already "violation"
            ck.extra["binding_demo"] = "skipped: no record of this run was accepted"
            return
        raise c.MachineryError("no accepted record to demonstrate the binding with")
    good.sort(key=lambda i: -len(doc["cases"][i]["final"]["atoms"]))
    bads = []
    for i in good[:4]:
        bad = json.loads(json.dumps(doc["cases"][i]))
        if prop == "C01":
            bad["final"]["atoms"][-1]["cg"] += 1
            field = "charge group of the last atom"
        else:       # a larger written distance excludes more pairs unless the whole molecule is excluded already: try a few records
            bad["final"]["nrexcl"] += 6
            field = "nrexcl of the molecule (+6)"
        bads.append(bad)
    demo = validate(ck, prop, {"ffs": doc["ffs"], "cases": bads}, "binding_demo", count=False)
    rejected = [j for j, bad in enumerate(bads) if not accepted(bad, demo.get(j + 1, []))[0]]
    if (prop == "C01" and len(rejected) != len(bads)) or not rejected:
        raise c.MachineryError("binding demonstration failed: records with a corrupted %s were accepted" % field)
    ck.extra["binding_demo"] = "%d of %d records with a corrupted %s rejected, e.g. %s" % (
        len(rejected), len(bads), field, first_bad(demo.get(rejected[0] + 1, [])))


def replay_trace(ck, prop, case):
    doc = {"ffs": [case["ff"]], "cases": [dict(case["case"], inp=dict(case["case"]["inp"], ff=1))]}
    by = validate(ck, prop, doc, "replay", count=False)
    ok, _ = accepted(doc["cases"][0], by.get(1, []))
    print("replayed: stored record %s (%s)" % ("accepted now" if ok else "still rejected", first_bad(by.get(1, []))))
    return 0 if ok else 1
