"""What MANIFEST.json claims.  bin/manifest.py renders this into MANIFEST.json."""
TECH = "explicit TLA+ specification checked with TLC (exhaustive small instance) + conformance: TLC-exported behaviours replayed on the code (S->I) and recorded code traces validated by a TLA+ trace specification (I->S)"
ENGINES = [{"name": "tlc", "path": "/opt/veriftools/tla/tla2tools.jar", "serves_properties": [], "kind_free_text": "TLC 1.8 model checker (exhaustive, simulation, trace validation); specs in /verif/spec"}]
NOTES = "Every check: bin/check <id> --tier quick|thorough. Specs in spec/, drivers in harness/drivers/, findings in known_findings.jsonl, design in DESIGN.md."
NOT_APPLICABLE = {}
CHECKS = {
 "C16": {"design_ref": "DESIGN.md 4.16",
         "text": "NBEngine.tla models the engine's four views (position table, per-tree index lists, node->tree map, tree contents) and its three mutators; TLC proves Views, QueriesAgree, LastGiven and the metric laws on the complete state graph of a small instance (4 nodes, threshold 1, 4-6 operations), and NBInductive.tla shows Views to be an inductive invariant: one operation from EVERY state of the instance with at most 3-4 trees that satisfies Views (29,404 / 51,699 states, reachable or not) preserves Views, Views implies QueriesAgree, LastGiven holds on every such step - so the laws hold for histories of any length (the reachable set itself is infinite, emptied trees accumulate). Binding: every 3-operation behaviour (with and without the 5000-point tree threshold) and simulated longer ones are replayed on the real NonBondEngine comparing state, overlap answer, the exact set of residues taken into account and the pair parameters after every operation; seeded random 40-300 operation traces of the real engine are validated by NBTrace.tla.",
         "note": "Trusted: TLC, the projection in harness/drivers/c16.py, scipy's KDTree. Lattice positions only (spacing 0.3 nm); the numeric value of the 12-6 force is compared by a small independent monitor, the set of contributing residues is decided by the specification. The hard-coded 5000-point threshold is reached with filler points.",
         "technique": TECH},
}
import json as _json, pathlib as _pl
for _f in sorted((_pl.Path(__file__).parent / "registry.d").glob("*.json")):
    _d = _json.loads(_f.read_text())
    _d.setdefault("technique", TECH)
    CHECKS[_d.pop("property_id")] = _d
for k in CHECKS:
    ENGINES[0]["serves_properties"].append(k)
