"""Rendering / running / projecting for C13 (independence of labelling, ordering and run history).

Nothing here decides what the result of gen_params should be.  Abstract inputs exported by TLC (spec/IndependenceExport.tla) or
drawn by the seeded drivers are rendered into real files (.ff, polyply .itp, .bib, residue-graph .json) in the order the
variant prescribes, the real pipeline runs on them, and the real molecule / the written .itp is projected onto the
abstract result of spec/IndependenceBase.tla:
    {"err": "", "atoms": [[resid, resname, atomname, atype], ...]  (in atom order),
     "ints": sorted [[kind, [atom numbers, 1-based], par], ...]    (a multiset),
     "nrexcl": n, "cites": sorted [keys]}
"""
import json
import os
import re
import sys
from pathlib import Path

PAR = {"bonds": "1 %s 7", "angles": "1 %s 7", "constraints": "1 %s", "exclusions": "%s", "pairs": "1 %s 7", "dihedrals": "1 %s 7 1"}
NATOMS = {"bonds": 2, "angles": 3, "constraints": 2, "exclusions": 2, "pairs": 2, "dihedrals": 4, "impropers": 4}


# --------------------------------------------------------------------------- rendering of abstract definitions

def _kinds(inters):
    out = []
    for x in inters:
        if x["kind"] not in out:
            out.append(x["kind"])
    return out


def _meta(x):
    return (' {"version": %d}' % x["ver"]) if x.get("ver", 1) != 1 else ""


def render_block_ff(b):
    out = ["[ moleculetype ]", "%s %d" % (b["name"], b["nrexcl"]), "[ atoms ]"]
    for i, a in enumerate(b["atoms"]):
        out.append("%d %s %d %s %s %d 0.0 10" % (i + 1, a["ty"], a["res"], a["rn"], a["an"], i + 1))
    for kind in _kinds(b["inters"]):
        out.append("[ %s ]" % kind)
        for x in b["inters"]:
            if x["kind"] == kind:
                out.append(" ".join(b["atoms"][j - 1]["an"] for j in x["at"]) + " " + PAR[kind] % x["par"] + _meta(x))
    return "\n".join(out) + "\n"


def render_block_itp(b):
    # the parameter macros the block's file comes with (GROMOS-style `#define gb_2 0.1230 1.6600e+07`); polyply hands bonded type names through
    out = ["#define %s %s 1.6600e+07" % (m["name"], m["val"]) for m in (b.get("macros") or [])]
    out += ["[ moleculetype ]", "%s %d" % (b["name"], b["nrexcl"])]
    if b.get("cite"):
        out += ["[ citation ]", " ".join(sorted(b["cite"]))]
    out.append("[ atoms ]")
    for i, a in enumerate(b["atoms"]):
        out.append("%d %s %d %s %s %d 0.0 10" % (i + 1, a["ty"], a["res"], a["rn"], a["an"], i + 1))
    for kind in _kinds(b["inters"]):
        out.append("[ %s ]" % kind)
        for x in b["inters"]:
            if x["kind"] == kind:
                out.append(" ".join(str(j) for j in x["at"]) + " " + PAR[kind] % x["par"])
    return "\n".join(out) + "\n"


def _prefix(o):
    if o >= 300:          # 300 + k = k `<` ("a residue with a smaller residue id")
        return "<" * (o - 300)
    if o >= 200:          # 200 + k = k `>` ("a residue with a larger residue id")
        return ">" * (o - 200)
    if o >= 100:          # 100 + k = k stars ("some other residue")
        return "*" * (o - 100)
    return "+" * o if o >= 0 else "-" * (-o)


def render_link(l):
    keys = {}
    out = ["[ link ]", "[ atoms ]"]
    rep = {r["a"]: r["ty"] for r in l["rep"]}
    for i, a in enumerate(l["atoms"]):
        k = _prefix(l["orders"][a["oi"] - 1]) + a["an"]
        keys[i + 1] = k
        d = {"resname": "|".join(a["rn"])}
        if a.get("ty"):           # the link atom asks for an atom type
            d["atype"] = a["ty"]
        if a.get("mk"):           # a residue-level attribute of the sequence file, handed down to the atoms of the residue
            d["mark"] = a["mk"]
        if (i + 1) in l["del"]:
            d["replace"] = {"atomname": None}
        elif (i + 1) in rep:
            d["replace"] = {"atype": rep[i + 1]}
        out.append("%s %s" % (k, json.dumps(d)))
    for kind in _kinds(l["inters"]):
        out.append("[ %s ]" % kind)
        for x in l["inters"]:
            if x["kind"] == kind:
                out.append(" ".join(keys[j] for j in x["at"]) + " " + PAR[kind] % x["par"] + _meta(x))
    return "\n".join(out) + "\n"


def render_mod(m):
    out = ["[ modification ]", m["name"], "[ atoms ]"]
    for a in m["atoms"]:
        out.append("%s %s" % (a["an"], json.dumps({"replace": {"atype": a["ty"]}}) if a["rep"] else "{ }"))
    for kind in _kinds(m["inters"]):
        out.append("[ %s ]" % kind)
        for x in m["inters"]:
            if x["kind"] == kind:
                out.append("%s %s %s" % (x["a"], x["b"], PAR[kind] % x["par"]))
    return "\n".join(out) + "\n"


def render_bib(keys):
    return "\n".join("@article{%s,\n  title={Paper %s},\n  author={Doe, J},\n  journal={J Indep},\n  year={2020},\n  volume={1},\n  pages={1--2},\n  doi={10.1000/%s}\n}\n" % (k, k, k)
                     for k in sorted(keys))


def render_file(F, f):
    """text of one input file: the definitions f["defs"] of force field F in that order, in the syntax f["syn"]"""
    parts = []
    for d in f["defs"]:
        if d["t"] == "b":
            b = F["blocks"][d["i"] - 1]
            parts.append(render_block_itp(b) if f["syn"] == "itp" else render_block_ff(b))
        elif d["t"] == "l":
            parts.append(render_link(F["links"][d["i"] - 1]))
        else:
            parts.append(render_mod(F["mods"][d["i"] - 1]))
    return "\n".join(parts)


_WRITTEN = {}


def write_files(wd, F, pres, tag="v", reuse=None):
    """the definitions of force field F in the presentation pres (files in that order, definitions in that order); returns the paths.
    reuse: a key identifying F; the same presentation of the same force field is then written only once per process and directory"""
    wd = Path(wd)
    if reuse is not None:
        key = (str(wd), reuse, json.dumps([[f["syn"], f["defs"]] for f in pres], sort_keys=True))
        if key in _WRITTEN:
            return _WRITTEN[key]
        tag = "ff%s_p%d" % (reuse, len(_WRITTEN))
        paths = write_files(wd, F, pres, tag)
        _WRITTEN[key] = paths
        return paths
    paths = []
    for k, f in enumerate(pres):
        p = wd / ("%s_%d_src%d.%s" % (tag, k + 1, f.get("src", k + 1), f["syn"]))
        p.write_text(render_file(F, f))
        paths.append(p)
    if F.get("bib"):
        p = wd / ("%s_cite.bib" % tag)
        p.write_text(render_bib(F["bib"]))
        paths.append(p)
    return paths


# --------------------------------------------------------------------------- residue graphs

def node_key(k):
    return ("k%d" % k["v"]) if k["s"] else k["v"]


def node_attrs(case, p):
    d = {"resid": case["start"] + p - 1, "resname": case["rn"][p - 1]}
    if case["fi"][p - 1]:
        d["from_itp"] = case["fi"][p - 1]
    if case.get("mark") and case["mark"][p - 1]:
        d["mark"] = case["mark"][p - 1]
    return d


def build_graph(case, var):
    import networkx as nx
    g = nx.Graph()
    key = {p: node_key(var["keys"][p - 1]) for p in range(1, case["n"] + 1)}
    for p in var["nodeorder"]:
        g.add_node(key[p], **node_attrs(case, p))
    for a, b in var["eseq"]:
        g.add_edge(key[a], key[b])
    return g


def graph_json(case, var):
    """node-link JSON as gen_params reads it (-f x.json): nodes listed in var['nodeorder'], edges in var['eseq'] order and orientation"""
    key = {p: node_key(var["keys"][p - 1]) for p in range(1, case["n"] + 1)}
    nodes = []
    for p in var["nodeorder"]:
        d = {"id": key[p]}
        d.update(node_attrs(case, p))
        nodes.append(d)
    edges = [{"source": key[a], "target": key[b]} for a, b in var["eseq"]]
    return json.dumps({"directed": False, "multigraph": False, "graph": {}, "nodes": nodes, "edges": edges, "links": edges})


def mods_arg(case):
    return [["%s%d" % (case["rn"][m["resid"] - case["start"]], m["resid"]), m["mod"]] for m in case["mods"]]


# --------------------------------------------------------------------------- projection

def par_token(parameters):
    return str(parameters[1]) if len(parameters) > 1 else ""


def project_molecule(mol, ff):
    nodes = list(mol.nodes)
    num = {n: i + 1 for i, n in enumerate(nodes)}
    atoms = [[mol.nodes[n].get("resid"), mol.nodes[n].get("resname"), mol.nodes[n].get("atomname"), mol.nodes[n].get("atype")] for n in nodes]
    ints = []
    for kind, lst in mol.interactions.items():
        for x in lst:
            ints.append([kind, [num.get(a, 0) for a in x.atoms], par_token(x.parameters)])
    cites = sorted(k for k in mol.citations if k in ff.citations)
    return {"err": "", "atoms": atoms, "ints": sorted(ints), "nrexcl": mol.nrexcl, "cites": cites}


def err_class(exc):
    name = type(exc).__name__
    msg = str(exc)
    if isinstance(exc, OSError):
        if "mismatch in the length" in msg:
            return "IOError:fraglen"
        if "Couldn't find block" in msg:
            return "IOError:noblock"
        if "seems to represent more than a single residue" in msg:
            return "IOError:multiblock"
        return "IOError:" + msg[:60]
    return name


def norm_err(e):
    """model error names -> the classes err_class can tell apart"""
    return "KeyError" if e.startswith("KeyError") else e


def expected_proj(exp):
    """TLC's OutJ record -> the projection shape"""
    if exp["err"]:
        return {"err": norm_err(exp["err"])}
    ints = []
    for r in exp["ints"]:
        for _ in range(r["n"]):
            ints.append([r["x"]["kind"], list(r["x"]["at"]), r["x"]["par"]])
    return {"err": "", "atoms": [[a["resid"], a["rn"], a["an"], a["ty"]] for a in exp["atoms"]], "ints": sorted(ints),
            "nrexcl": exp["nrexcl"], "cites": sorted(exp["cites"])}


def read_itp(path):
    """projection of a written .itp (atoms, interaction multiset, nrexcl, citation lines of the header)"""
    atoms, ints, sec = [], [], None
    nrexcl = None
    cites = []
    lines = Path(path).read_text().splitlines()
    for line in lines:
        if line.startswith(";"):
            m = re.search(r"10\.1000/(\w+)", line)
            if m:
                cites.append(m.group(1))
            continue
        line = line.split(";")[0].strip()
        if not line or line.startswith("#"):
            continue
        if line.startswith("["):
            sec = line.strip("[] ").strip()
            continue
        tok = line.split()
        if sec == "moleculetype":
            nrexcl = int(tok[1])
        elif sec == "atoms":
            atoms.append([int(tok[2]), tok[3], tok[4], tok[1]])
        elif sec in NATOMS:
            n = NATOMS[sec]
            ints.append([sec, [int(t) for t in tok[:n]], tok[n + 1] if len(tok) > n + 1 else ""])
    return {"err": "", "atoms": atoms, "ints": sorted(ints), "nrexcl": nrexcl, "cites": sorted(set(cites))}


def body(path):
    """the written file without its command-line header line"""
    txt = Path(path).read_text().splitlines()
    return "\n".join(txt[1:])


# --------------------------------------------------------------------------- running the real code

def run_direct(case, F, var, wd, tag="v", name="t", reuse_files=False):
    """load_ff_library on the rendered files + MetaMolecule (api: networkx graph, json: the sequence file reader) + MapToMolecule +
    ApplyLinks + ApplyModifications; returns the projection (or {"err": class})"""
    from polyply import MetaMolecule, MapToMolecule, ApplyLinks
    from polyply.src.apply_modifications import ApplyModifications
    from polyply.src.load_library import load_ff_library
    paths = write_files(wd, F, var["files"], tag, reuse=case.get("ff") if reuse_files else None)
    try:
        ff = load_ff_library(name, None, paths)
        if var["route"] == "json":
            jp = Path(wd) / ("%s_seq.json" % tag)
            jp.write_text(graph_json(case, var))
            mm = MetaMolecule.from_sequence_file(ff, jp, name)
        else:
            mm = MetaMolecule(build_graph(case, var), force_field=ff, mol_name=name)
        MapToMolecule(ff).run_molecule(mm)
        ApplyLinks().run_molecule(mm)
        ApplyModifications(modifications=mods_arg(case), meta_molecule=mm).run_molecule(mm)
        return project_molecule(mm.molecule, ff)
    except Exception as exc:  # the code under test raised: that is an observation, not a harness failure
        import traceback
        return {"err": err_class(exc), "msg": "%s: %s" % (type(exc).__name__, str(exc)[:200]), "tb": traceback.format_exc()[-1200:]}


def run_gen_params(case, F, var, wd, tag="g", name="t", out=None):
    """the real gen_params entry point: rendered files + residue graph JSON -> written .itp; returns (projection of the file, path)"""
    import polyply.src.gen_itp as gi
    wd = Path(wd)
    paths = write_files(wd, F, var["files"], tag)
    jp = wd / ("%s_seq.json" % tag)
    jp.write_text(graph_json(case, var))
    out = Path(out) if out else wd / ("%s_out.itp" % tag)
    if out.exists():
        out.unlink()
    kw = {"mods": mods_arg(case)} if case["mods"] else {}
    try:
        gi.gen_params(name=name, outpath=out, inpath=paths, lib=None, seq=None, seq_file=jp, **kw)
    except Exception as exc:
        import traceback
        return {"err": err_class(exc), "msg": "%s: %s" % (type(exc).__name__, str(exc)[:200]), "tb": traceback.format_exc()[-1200:]}, None
    if not out.exists():
        return {"err": "nofile", "msg": "gen_params returned without writing %s" % out}, None
    return read_itp(out), out


def diff(a, b, la="observed", lb="expected"):
    """human-readable differences between two projections ([] = equal)"""
    if a.get("err") or b.get("err"):
        if a.get("err") != b.get("err"):
            return ["%s: %s; %s: %s" % (la, a.get("err") + (" (" + a.get("msg", "") + ")" if a.get("msg") else "") or "no error", lb, b.get("err") or "no error")]
        return []
    out = []
    if a["atoms"] != b["atoms"]:
        out.append("atoms differ: %s %s / %s %s" % (la, a["atoms"], lb, b["atoms"]))
    if a["ints"] != b["ints"]:
        only_a = [x for x in a["ints"] if x not in b["ints"]]
        only_b = [x for x in b["ints"] if x not in a["ints"]]
        if not only_a and not only_b:
            out.append("interaction multiplicities differ: %s %s / %s %s" % (la, a["ints"], lb, b["ints"]))
        else:
            out.append("interactions only in %s: %s; only in %s: %s" % (la, only_a, lb, only_b))
    if a["nrexcl"] != b["nrexcl"]:
        out.append("nrexcl %s %s / %s %s" % (la, a["nrexcl"], lb, b["nrexcl"]))
    if a["cites"] != b["cites"]:
        out.append("citations %s %s / %s %s" % (la, a["cites"], lb, b["cites"]))
    return out


def same(a, b):
    return not diff(a, b)


def canon(p):
    """the projection with every interaction listed in the atom order the .itp writer uses (a-b == b-a, an angle or dihedral read backwards
    is the same interaction: DESIGN 3); used where one side went through the written file"""
    if p.get("err"):
        return p
    q = dict(p)
    q["ints"] = sorted([k, min(list(at), list(at)[::-1]), par] for k, at, par in p["ints"])
    return q


# --------------------------------------------------------------------------- one process, several gen_params runs (histories)

def history_main(argv):
    """child process: python -m harness.indep_util <spec.json>; runs the listed gen_params calls IN THIS ONE PROCESS, in order,
    and prints one JSON line with, per run, the error class or the projection of the written file and its body"""
    import logging
    logging.disable(logging.CRITICAL)
    os.environ.setdefault("TQDM_DISABLE", "1")
    spec = json.loads(Path(argv[1]).read_text())
    import polyply.src.gen_itp as gi
    res = []
    for run in spec["runs"]:
        run = {k: v for k, v in run.items() if k != "declared_failure"}
        for path, text in run.get("write", []):     # the file system is state outside the process: an input file (re)written before this call
            Path(path).write_text(text)
        out = Path(run["out"])
        before = out.read_text() if out.exists() else None
        sys.argv = ["polyply", "gen_params"] + [str(a) for a in run.get("argv", [])]
        kw = dict(name=run.get("name", "t"), outpath=out, lib=run.get("lib"),
                  seq=run.get("seq"), seq_file=Path(run["seq_file"]) if run.get("seq_file") else None)
        if run.get("inpath"):      # a call that names only a library leaves inpath at its default, as `gen_params(lib=[...])` does
            kw["inpath"] = [Path(p) for p in run["inpath"]]
        if run.get("mods"):        # otherwise the default of gen_params is used, as a caller without -mods does
            kw["mods"] = run["mods"]
        try:
            gi.gen_params(**kw)
        except Exception as exc:
            res.append({"err": err_class(exc), "msg": "%s: %s" % (type(exc).__name__, str(exc)[:200])})
            continue
        if not out.exists():
            res.append({"err": "nofile", "msg": "no output file"})
            continue
        txt = out.read_text()
        r = read_itp(out)
        r["body"] = "\n".join(txt.splitlines()[1:])
        r["unchanged_from_before"] = before is not None and before == txt
        others = sorted(p.name for p in out.parent.iterdir() if p.name != out.name)
        r["siblings"] = others
        res.append(r)
    print("HISTORY-RESULT " + json.dumps(res))
    return 0


if __name__ == "__main__":
    sys.exit(history_main(sys.argv))
