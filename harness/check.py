"""bin/check <Cnn> [--tier quick|thorough] [--replay <path>]"""
import argparse
import importlib
import os
import sys
import traceback

from . import common


def main():
    ap = argparse.ArgumentParser()
    ap.add_argument("prop")
    ap.add_argument("--tier", default=os.environ.get("VERIF_TIER", "quick"), choices=["quick", "thorough"])
    ap.add_argument("--replay", default=None)
    a = ap.parse_args()
    common.quiet()
    try:
        mod = importlib.import_module("harness.drivers.%s" % a.prop.lower())
    except ImportError:
        print("no driver for", a.prop)
        traceback.print_exc()
        return 2
    try:
        if a.replay:
            return mod.replay(a.replay)
        return mod.run(a.tier)
    except common.MachineryError as exc:
        print("MACHINERY-FAILURE %s: %s" % (a.prop, exc))
        return 2
    except Exception:
        print("MACHINERY-FAILURE %s: unexpected exception" % a.prop)
        traceback.print_exc()
        return 2


if __name__ == "__main__":
    sys.exit(main())
