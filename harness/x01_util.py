"""X01 machinery: run gen_seq | gen_params | gen_coords for real, chained through real files in a scratch directory, with
one event per stage (stage vocabulary of Output.tla / spec/Polyply.tla) and a projection of the objects that cross stage and
program boundaries onto the abstract state of spec/Polyply.tla.

Nothing here knows what the result must be: a *case* (the JSON form spec/PolyplyJson.tla!CaseJ prints) is rendered into real
inputs (.ff text or a library name, gen_seq arguments, -seq strings, a .top), the real programs run the way /repo/bin/polyply
calls them, and the real objects / files are projected:
    graph   {n, ids, names, edges [[i, j]..] over residue ids, labels}
    mol     {atoms [[resid, resname, atomname]..], bonds [[i, j]..] between residues}
    ffv     {blocks [...], links ["plus" | "gt"]}
    file    {st absent|empty|full|<other>, g, mol, atoms [[resid, resname, atomname, finite]..]}
No hooks in /repo: the stage functions are wrapped from here (same functions as harness/output_util.py wraps for C20).
"""
import inspect
import json
import math
import os
import random
import sys
import tempfile
import traceback
from pathlib import Path

from . import common as c
from .output_util import _Proxy, fork_map, preload  # noqa: F401  (read-only reuse)

FILES = {"json": "seq.json", "itp": "pol.itp", "gro": "out.gro", "itp2": "pol2.itp", "gro2": "out2.gro"}
TOPS = {"itp": "sys.top", "itp2": "sys2.top"}
MOLNAME = "pol"
LABEL = "chiral"
BASE = {"gen_params": ["read_ff", "graph", "dsdna", "map", "links", "mods", "missing", "open", "write", "flush"],
        "gen_coords": ["read_top", "preprocess", "check", "split", "coords", "build_file", "start", "grid", "templates", "ligands",
                       "cycles", "build", "split_lig", "backmap", "convert", "open", "write", "flush"],
        "gen_seq": ["macro_file", "macro_str", "graph", "termini", "labels", "to_json", "popen", "pwrite"]}
NOGRAPH = {"n": 0, "ids": [], "names": [], "edges": [], "labels": []}
NOMOL = {"atoms": [], "bonds": []}
NOFILE = {"st": "absent", "g": NOGRAPH, "mol": NOMOL, "atoms": []}


class Injected(BaseException):
    """the failure the specification (or the seeded driver) decided to inject at the entry of a stage"""


# --------------------------------------------------------------------------------------------- the chain of a case

def chain_of(case):
    gs = {"prog": "gen_seq", "inf": "-", "outf": "json", "ug": "seq"}
    if case["mode"] == "chain2":
        return [{"prog": "gen_params", "inf": "-", "outf": "itp", "ug": "lin"}, {"prog": "gen_coords", "inf": "itp", "outf": "gro", "ug": "lin"}]
    ch = [gs, {"prog": "gen_params", "inf": "json", "outf": "itp", "ug": "seq"}, {"prog": "gen_coords", "inf": "itp", "outf": "gro", "ug": "seq"}]
    if case["mode"] == "both":
        ch += [{"prog": "gen_params", "inf": "-", "outf": "itp2", "ug": "lin"}, {"prog": "gen_coords", "inf": "itp2", "outf": "gro2", "ug": "lin"}]
    return ch


# --------------------------------------------------------------------------------------------- rendering

def ff_text(case):
    """a tiny force field: one block per name of case.lib that case.ff.blocks lists (first bead BB, further beads bonded to it),
    one two-residue link per link kind.  The residue-name column of the block atoms deliberately differs from the block name:
    the names in the output must come from the sequence."""
    out = ["[ citations ]", "polyply", ""]
    for name in sorted(case["ff"]["blocks"]):
        atoms = case["lib"][name]
        out += ["[ moleculetype ]", "%s 1" % name, "[ atoms ]"]
        for i, a in enumerate(atoms, 1):
            out.append("%d P 1 %s %s %d 0.0 72.0" % (i, name, a, i))
        if len(atoms) > 1:
            out.append("[ bonds ]")
            for i in range(2, len(atoms) + 1):
                out.append("1 %d 1 0.35 5000" % i)
        out.append("")
    rn = "|".join(sorted(case["lib"]))
    for kind in sorted(case["ff"]["links"]):
        pre = {"plus": "+", "gt": ">"}[kind]
        out += ["[ link ]", 'resname "%s"' % rn, "[ bonds ]", "BB %sBB 1 0.40 5000" % pre, ""]
    return "\n".join(out) + "\n"


def genseq_kwargs(case, outpath):
    ms = case["macros"]
    kw = dict(name="x", outpath=outpath, seq=["M%d" % i for i in range(len(ms))],
              macro_strings=["M%d:%d:%d:%s-1.0" % (i, m["lv"], m["bf"], m["res"]) for i, m in enumerate(ms)],
              connects=["%d:%d:%d-%d" % tuple(x) for x in case["connects"]])
    if case["tag"]:
        kw["tags"] = ["%d:%s:R-1.0" % (case["tag"] - 1, LABEL)]
    return kw


def seq_strings(case):
    return ["%s:%d" % (m["res"], m["lv"]) for m in case["macros"]]


def atomtypes_of(itp_path, sigma):
    ts, sec = [], None
    for line in Path(itp_path).read_text().splitlines():
        line = line.split(";")[0].strip()
        if line.startswith("["):
            sec = line.strip("[] ")
            continue
        if sec == "atoms" and line:
            t = line.split()[1]
            if t not in ts:
                ts.append(t)
    return "".join("%s 72.0 0.0 A %.3f 2.0\n" % (t, sigma) for t in ts)


def top_text(case, itp_name, itp_path):
    at = atomtypes_of(itp_path, case.get("sigma", 0.47)) if Path(itp_path).exists() else "P 72.0 0.0 A 0.47 4.0\n"
    return ('[ defaults ]\n1 2 no 1.0 1.0\n[ atomtypes ]\n%s#include "%s"\n[ system ]\nx\n[ molecules ]\n%s %d\n'
            % (at, itp_name, MOLNAME, case["count"]))


# --------------------------------------------------------------------------------------------- projections

def _i(x):
    if isinstance(x, bool) or not isinstance(x, (int,)) and not (hasattr(x, "__index__")):
        raise TypeError("not an integer: %r" % (x,))
    return int(x)


def _edges(pairs):
    return sorted({tuple(sorted((_i(a), _i(b)))) for a, b in pairs if a != b} | {(_i(a), _i(b)) for a, b in pairs if a == b})


def proj_seq_graph(g):
    """gen_seq's networkx graph (node keys from 0; residue id = key + 1)"""
    nodes = list(g.nodes)
    return {"n": len(nodes), "ids": [_i(k) + 1 for k in nodes], "names": [str(g.nodes[k].get("resname")) for k in nodes],
            "edges": [list(e) for e in _edges([(_i(a) + 1, _i(b) + 1) for a, b in g.edges])],
            "labels": [str(g.nodes[k].get(LABEL, "-")) for k in nodes]}


def proj_meta(mm):
    """a MetaMolecule: residue ids from the resid attribute"""
    nodes = list(mm.nodes)
    rid = {k: _i(mm.nodes[k].get("resid")) for k in nodes}
    return {"n": len(nodes), "ids": [rid[k] for k in nodes], "names": [str(mm.nodes[k].get("resname")) for k in nodes],
            "edges": [list(e) for e in _edges([(rid[a], rid[b]) for a, b in mm.edges])],
            "labels": [str(mm.nodes[k].get(LABEL, "-")) for k in nodes]}


def proj_molecule(mol):
    nodes = list(mol.nodes)
    atoms = [[_i(mol.nodes[k].get("resid")), str(mol.nodes[k].get("resname")), str(mol.nodes[k].get("atomname"))] for k in nodes]
    rid = {k: a[0] for k, a in zip(nodes, atoms)}
    return {"atoms": atoms, "bonds": [list(e) for e in _edges([(rid[a], rid[b]) for a, b in mol.edges if rid[a] != rid[b]])]}


def _link_kind(oa, ob):
    s = {repr(oa), repr(ob)}
    if s == {"0", "1"}:
        return "plus"
    if s == {"0", "'>'"}:
        return "gt"
    return "other:%s,%s" % tuple(sorted(s))


def proj_ff_pairs(ff, lib):
    """(block name of the residue with the lower order, block name of the other) -> kinds of the two-residue links that carry a
    bond between an atom of the one and an atom of the other"""
    from vermouth.molecule import attributes_match
    blocks = sorted(n for n in lib if n in ff.blocks)
    uni = {b: [dict(ff.blocks[b].nodes[k], resname=b) for k in ff.blocks[b].nodes] for b in blocks}

    def users(attrs):
        tmpl = {k: v for k, v in attrs.items() if k in ("atomname", "resname")}
        return [b for b in blocks if any(attributes_match(a, tmpl) for a in uni[b])]
    pairs = {}
    for link in ff.links:
        for it in ("bonds", "constraints"):
            for inter in link.interactions.get(it, []):
                a, b = inter.atoms[:2]
                na, nb = link.nodes[a], link.nodes[b]
                oa, ob = na.get("order", 0), nb.get("order", 0)
                if oa == ob:
                    continue
                if repr(ob) == "0":
                    na, nb = nb, na
                for x in users(na):
                    for y in users(nb):
                        pairs.setdefault((x, y), set()).add(_link_kind(oa, ob))
    return blocks, pairs


def proj_ff(ff, lib):
    """blocks of the universe (names of case.lib) the force field has; kinds of its two-residue links that carry a bond between
    atoms the universe's blocks have"""
    blocks, pairs = proj_ff_pairs(ff, lib)
    return {"blocks": blocks, "links": sorted(set().union(*pairs.values()) if pairs else set())}


def proj_json_file(path):
    p = Path(path)
    if not p.exists():
        return dict(NOFILE)
    text = p.read_text()
    if text == "":
        return dict(NOFILE, st="empty")
    try:
        doc = json.loads(text)
        nodes = doc["nodes"]
        el = doc["edges"] if "edges" in doc else doc["links"]
        g = {"n": len(nodes), "ids": [_i(x["id"]) + 1 for x in nodes], "names": [str(x.get("resname")) for x in nodes],
             "edges": [list(e) for e in _edges([(_i(x["source"]) + 1, _i(x["target"]) + 1) for x in el])],
             "labels": [str(x.get(LABEL, "-")) for x in nodes]}
        return dict(NOFILE, st="full", g=g)
    except Exception as exc:
        return dict(NOFILE, st="unreadable: %s" % type(exc).__name__)


def proj_itp_file(path):
    """through polyply's own .itp reader"""
    p = Path(path)
    if not p.exists():
        return dict(NOFILE)
    text = p.read_text()
    if text == "":
        return dict(NOFILE, st="empty")
    try:
        import vermouth.forcefield
        from polyply.src.polyply_parser import read_polyply
        ff = vermouth.forcefield.ForceField("x01")
        read_polyply(text.splitlines(), ff)
        block = ff.blocks[MOLNAME]
        nodes = list(block.nodes)
        atoms = [[_i(block.nodes[k].get("resid")), str(block.nodes[k].get("resname")), str(block.nodes[k].get("atomname"))] for k in nodes]
        rid = {k: a[0] for k, a in zip(nodes, atoms)}
        pairs = []
        for it in ("bonds", "constraints"):
            for inter in block.interactions.get(it, []):
                a, b = inter.atoms[:2]
                if rid[a] != rid[b]:
                    pairs.append((rid[a], rid[b]))
        return dict(NOFILE, st="full", mol={"atoms": atoms, "bonds": [list(e) for e in _edges(pairs)]})
    except Exception as exc:
        return dict(NOFILE, st="unreadable: %s: %s" % (type(exc).__name__, str(exc)[:80]))


def proj_gro_file(path):
    p = Path(path)
    if not p.exists():
        return dict(NOFILE)
    text = p.read_text()
    if text == "":
        return dict(NOFILE, st="empty")
    try:
        lines = text.splitlines()
        n = int(lines[1])
        atoms = []
        for line in lines[2:2 + n]:
            xyz = [float(line[20 + 8 * k:28 + 8 * k]) for k in range(3)]
            atoms.append([int(line[0:5]), line[5:10].strip(), line[10:15].strip(), all(math.isfinite(v) for v in xyz)])
        if len(lines) != n + 3:
            return dict(NOFILE, st="unreadable: %d lines for %d atoms" % (len(lines), n))
        return dict(NOFILE, st="full", atoms=atoms)
    except Exception as exc:
        return dict(NOFILE, st="unreadable: %s" % type(exc).__name__)


PROJ_FILE = {"json": proj_json_file, "itp": proj_itp_file, "gro": proj_gro_file, "itp2": proj_itp_file, "gro2": proj_gro_file}


def proj_files(wd):
    return {k: PROJ_FILE[k](Path(wd) / FILES[k]) for k in FILES}


# --------------------------------------------------------------------------------------------- recorder

class Recorder:
    """wraps the stage functions of one program at a time; one event per stage that completed or failed; snapshot = projection
    of the objects the stages handed on (captured from arguments / results) and of the files"""

    def __init__(self, case, wd, plan=None, light=False):
        self.case, self.wd, self.plan, self.light = case, Path(wd), plan, light
        self.events = []
        self.undo = []
        self.handles = []
        self.fired = False
        self.p = 0
        self.prog = None
        self.reset()

    def reset(self):
        self.obj = {}
        self.active = []
        self.failed = False
        self.seen = set()

    # ---- snapshot
    def mem(self):
        o = self.obj
        m = {"g": NOGRAPH, "ffv": {"blocks": [], "links": []}, "mol": NOMOL, "miss": [], "tmpl": [], "ntop": 0, "placed": 0, "coords": 0,
             "uniform": True}
        try:
            if self.prog == "gen_seq":
                if "graph" in o:
                    m["g"] = proj_seq_graph(o["graph"])
            elif self.prog == "gen_params":
                if "ff" in o:
                    m["ffv"] = proj_ff(o["ff"], self.case["lib"])
                if "meta" in o:
                    mm = o["meta"]
                    m["g"] = proj_meta(mm)
                    if getattr(mm, "molecule", None) is not None:
                        m["mol"] = proj_molecule(mm.molecule)
                if "miss" in o:
                    m["miss"] = [list(e) for e in _edges([(x["idxA"], x["idxB"]) for x in o["miss"]])]
            elif self.prog == "gen_coords":
                if "top" in o:
                    mols = list(o["top"].molecules)
                    m["ntop"] = len(mols)
                    gs = [proj_meta(x) for x in mols]
                    ms = [proj_molecule(x.molecule) for x in mols]
                    if gs:
                        m["g"], m["mol"] = gs[0], ms[0]
                        m["uniform"] = all(g == gs[0] for g in gs) and all(x == ms[0] for x in ms)
                        tm = getattr(mols[0], "templates", None) or {}
                        m["tmpl"] = sorted({str(mols[0].nodes[k].get("resname")) for k in mols[0].nodes if mols[0].nodes[k].get("template") in tm})
                    m["placed"] = sum(1 for x in mols for k in x.nodes if "position" in x.nodes[k])
                    m["coords"] = sum(1 for x in mols for k in x.molecule.nodes
                                      if x.molecule.nodes[k].get("position") is not None
                                      and all(math.isfinite(float(v)) for v in x.molecule.nodes[k]["position"]))
        except Exception as exc:
            m["uniform"] = False
            m["error"] = "projection failed: %s: %s" % (type(exc).__name__, str(exc)[:200])
        return m

    def snapshot(self):
        for h in self.handles:
            try:
                if not h.closed:
                    h.flush()
            except Exception:
                pass
        return {"mem": self.mem(), "files": proj_files(self.wd)}

    def emit(self, kind, stage, ok, inj=False):
        ev = {"ev": {"kind": kind, "p": self.p, "stage": stage, "ok": bool(ok), "inj": bool(inj)}, "prog": self.prog}
        if not self.light or kind == "end":
            ev.update(self.snapshot())
        # a stage whose function is called once per macro / molecule is one stage: consecutive completions are collapsed
        if kind == "stage" and ok and self.events and self.events[-1]["ev"] == ev["ev"]:
            self.events[-1] = ev
        else:
            self.events.append(ev)

    # ---- wrappers
    def maybe_inject(self, stage):
        if self.plan and not self.fired and self.plan["p"] == self.p and self.plan["stage"] == stage:
            self.fired = True
            self.failed = True
            self.emit("stage", stage, False, True)
            raise Injected("%d/%s" % (self.p, stage))

    def wrap(self, stage, fn, capture=None, listify=False, entry=True, then=None):
        """entry: the injected failure of this stage is raised on entry of fn; then: stage whose injected failure is raised right
        after this one completed (gen_coords: write_gro opens the output itself, so 'write fails' = fails after the open)"""
        rec = self

        def wrapper(*a, **k):
            if entry:
                rec.maybe_inject(stage)
            rec.active.append(stage)
            try:
                res = fn(*a, **k)
                if listify:
                    res = list(res)
            except BaseException:
                if not rec.failed:
                    rec.failed = True
                    rec.emit("stage", rec.active[-1], False, False)
                raise
            finally:
                rec.active.pop()
            if capture:
                capture(rec.obj, a, k, res)
            rec.emit("stage", stage, True)
            if then:
                rec.maybe_inject(then)
            return iter(res) if listify else res
        return wrapper

    def patch_attr(self, obj, name, new):
        had = name in vars(obj)
        old = vars(obj).get(name)
        setattr(obj, name, new)
        self.undo.append((obj, name, had, old))

    def patch_func(self, obj, name, stage, capture=None, listify=False, entry=True, then=None):
        try:
            raw = inspect.getattr_static(obj, name)
        except AttributeError:
            raise c.MachineryError("X01 wrapper target %s.%s not found" % (getattr(obj, "__name__", obj), name))
        if isinstance(raw, classmethod):
            new = classmethod(self.wrap(stage, raw.__func__, capture, listify, entry, then))
        elif isinstance(raw, staticmethod):
            new = staticmethod(self.wrap(stage, raw.__func__, capture, listify, entry, then))
        else:
            new = self.wrap(stage, raw, capture, listify, entry, then)
        self.patch_attr(obj, name, new)

    def install(self, prog):
        def keep(key, from_result=True, arg=None):
            def cap(obj, a, k, res):
                obj[key] = res if from_result else a[arg]
            return cap
        rec = self

        def cap_handle(obj, a, k, res):
            rec.handles.append(res)
        if prog == "gen_params":
            import polyply.src.gen_itp as m
            import vermouth.gmx.itp as vitp
            import vermouth.file_writer as fw
            from polyply import MetaMolecule, MapToMolecule, ApplyLinks
            from polyply.src.apply_modifications import ApplyModifications
            self.patch_func(m, "load_ff_library", "read_ff", keep("ff"))
            self.patch_func(MetaMolecule, "from_monomer_seq_linear", "graph", keep("meta"))
            self.patch_func(MetaMolecule, "from_sequence_file", "graph", keep("meta"))
            self.patch_func(m, "complement_dsDNA", "dsdna")
            self.patch_func(MapToMolecule, "run_molecule", "map", keep("meta"))
            self.patch_func(ApplyLinks, "run_molecule", "links", keep("meta"))
            self.patch_func(ApplyModifications, "run_molecule", "mods", keep("meta"))
            self.patch_func(m, "find_missing_edges", "missing", keep("miss"), listify=True)
            self.patch_func(m, "deferred_open", "open", cap_handle)
            self.patch_func(vitp, "write_molecule_itp", "write")
            self.patch_func(fw.DeferredFileWriter, "write", "flush")
        elif prog == "gen_coords":
            import polyply.src.gen_coords as m
            import vermouth.gmx.gro as vgro
            import vermouth.file_writer as fw
            from polyply.src.topology import Topology
            from polyply.src.meta_molecule import MetaMolecule
            from polyply.src.generate_templates import GenerateTemplates
            from polyply.src.annotate_ligands import AnnotateLigands
            from polyply.src.build_system import BuildSystem
            from polyply.src.backmap import Backmap
            self.patch_func(Topology, "from_gmx_topfile", "read_top", keep("top"))
            self.patch_func(Topology, "preprocess", "preprocess")
            self.patch_func(m, "_check_molecules", "check")
            self.patch_func(MetaMolecule, "split_residue", "split")
            self.patch_func(Topology, "add_positions_from_file", "coords")
            self.patch_func(m, "load_build_files", "build_file")
            self.patch_func(m, "find_starting_node_from_spec", "start")
            self.patch_attr(m, "np", _Proxy(m.np, loadtxt=self.wrap("grid", m.np.loadtxt)))
            self.patch_func(GenerateTemplates, "run_system", "templates")
            self.patch_func(AnnotateLigands, "run_system", "ligands")
            self.patch_func(m, "_initialize_cylces", "cycles")
            self.patch_func(BuildSystem, "run_system", "build")
            self.patch_func(AnnotateLigands, "split_ligands", "split_lig")
            self.patch_func(Backmap, "run_system", "backmap")
            self.patch_func(Topology, "convert_to_vermouth_system", "convert")
            self.patch_func(vgro, "deferred_open", "open", cap_handle, then="write")
            self.patch_func(vgro, "write_gro", "write", entry=False)
            self.patch_func(fw.DeferredFileWriter, "write", "flush")
        elif prog == "gen_seq":
            import builtins
            import polyply.src.gen_seq as m
            self.patch_func(m, "load_ff_library", "macro_file")
            self.patch_attr(m, "MacroFile", self.wrap("macro_file", m.MacroFile))
            self.patch_attr(m, "MacroString", self.wrap("macro_str", m.MacroString))
            self.patch_func(m, "generate_seq_graph", "graph", keep("graph"))
            self.patch_func(m, "_apply_termini_modifications", "termini")
            self.patch_func(m, "_tag_nodes", "labels")
            self.patch_attr(m, "json_graph", _Proxy(m.json_graph, node_link_data=self.wrap("to_json", m.json_graph.node_link_data)))
            self.patch_attr(m, "open", self.wrap("popen", builtins.open, cap_handle))
            self.patch_attr(m, "json", _Proxy(m.json, dump=self.wrap("pwrite", m.json.dump)))
        else:
            raise c.MachineryError("unknown program %s" % prog)

    def remove(self):
        for obj, name, had, old in reversed(self.undo):
            if had:
                setattr(obj, name, old)
            else:
                try:
                    delattr(obj, name)
                except AttributeError:
                    pass
        self.undo = []
        for h in self.handles:
            try:
                h.close()
            except Exception:
                pass
        self.handles = []


# --------------------------------------------------------------------------------------------- running a chain

def _seed(seed):
    import numpy as np
    random.seed(seed)
    np.random.seed(seed)


def _kwargs(case, step, wd):
    prog = step["prog"]
    out = Path(FILES[step["outf"]])
    if prog == "gen_seq":
        return genseq_kwargs(case, out)
    if prog == "gen_params":
        kw = dict(name=MOLNAME, outpath=out)
        if case.get("fflib"):
            kw.update(lib=[case["fflib"]], inpath=[])
        else:
            kw.update(inpath=[Path("x01.ff")])
        if step["inf"] == "-":
            kw["seq"] = seq_strings(case)
        else:
            kw["seq_file"] = Path(FILES[step["inf"]])
        return kw
    import numpy as np
    box = float(case.get("box", 8.0))
    return dict(toppath=Path(TOPS[step["inf"]]), outpath=out, name="x", box=np.array([box, box, box]))


def run_chain(job):
    """job = {"case": ..., "wd": str, "plan": {"p": int, "stage": str} | None, "seed": int, "light": bool, "keep": bool}
    runs in the current process (call it in a forked child).  Returns {"events": [...], "unplanned": [...], "raw": {...}}"""
    from vermouth.file_writer import DeferredFileWriter
    import polyply
    case, wd = job["case"], Path(job["wd"])
    if wd.exists():
        import shutil
        shutil.rmtree(wd, ignore_errors=True)
    wd.mkdir(parents=True)
    (wd / "tmp").mkdir()
    if DeferredFileWriter().open_files:
        raise c.MachineryError("writer queue not empty at the start of a chain")
    cwd = os.getcwd()
    os.chdir(wd)
    tempfile.tempdir = str(wd / "tmp")
    rec = Recorder(case, wd, job.get("plan"), job.get("light", False))
    unplanned = []
    try:
        if not case.get("fflib"):
            Path("x01.ff").write_text(ff_text(case))
        for p, step in enumerate(chain_of(case), 1):
            prog = step["prog"]
            rec.p, rec.prog = p, prog
            rec.reset()
            if prog == "gen_coords":
                Path(TOPS[step["inf"]]).write_text(top_text(case, FILES[step["inf"]], FILES[step["inf"]]))
            fn = getattr(polyply, prog)
            kw = _kwargs(case, step, wd)
            rec.emit("begin", "-", True)
            rec.install(prog)
            sys.argv = ["polyply", prog]
            _seed(job.get("seed", 0) * 1000 + (7 if prog == "gen_coords" else p))
            ok = True
            try:
                fn(**kw)
            except Injected:
                ok = False
            except BaseException as exc:
                if isinstance(exc, KeyboardInterrupt):
                    raise
                ok = False
                unplanned.append({"p": p, "prog": prog, "exc": "%s: %s" % (type(exc).__name__, str(exc)[:300]),
                                  "where": traceback.format_exc()[-900:], "in_stage": rec.failed})
            finally:
                rec.remove()
                DeferredFileWriter().open_files.clear()     # the next command of the chain is a new process
            rec.emit("end", "-", ok and not rec.failed)
    finally:
        os.chdir(cwd)
        tempfile.tempdir = None
    raw = {}
    for k in ("itp", "itp2"):
        f = wd / FILES[k]
        if f.exists():
            raw[k] = [l for l in f.read_text().splitlines() if l.strip() and not l.startswith(";")]
    if not job.get("keep"):
        import shutil
        shutil.rmtree(wd, ignore_errors=True)      # thousands of scratch directories are slow to clean up later
    return {"events": rec.events, "unplanned": unplanned, "raw": raw}


# --------------------------------------------------------------------------------------------- comparison helpers

def norm_mem(m):
    m = dict(m)
    m.pop("uniform", None)
    m.pop("error", None)
    m["ffv"] = {"blocks": sorted(m["ffv"]["blocks"]), "links": sorted(m["ffv"]["links"])}
    m["tmpl"] = sorted(m["tmpl"])
    return m


def wellformed(ev):
    """type sanity of a recorded snapshot before it is handed to TLC (ints are ints, names are strings)"""
    def graph_ok(g):
        return (isinstance(g["n"], int) and all(isinstance(x, int) for x in g["ids"]) and all(isinstance(x, str) for x in g["names"] + g["labels"])
                and all(len(e) == 2 and all(isinstance(x, int) for x in e) for e in g["edges"]))

    def mol_ok(m):
        return (all(len(a) == 3 and isinstance(a[0], int) and isinstance(a[1], str) and isinstance(a[2], str) for a in m["atoms"])
                and all(len(e) == 2 and all(isinstance(x, int) for x in e) for e in m["bonds"]))
    try:
        m = ev["mem"]
        if "error" in m:
            return False
        ok = graph_ok(m["g"]) and mol_ok(m["mol"]) and all(isinstance(x, str) for x in m["ffv"]["blocks"] + m["ffv"]["links"] + m["tmpl"])
        ok = ok and all(isinstance(m[k], int) for k in ("ntop", "placed", "coords")) and all(len(e) == 2 for e in m["miss"])
        for f in ev["files"].values():
            ok = ok and isinstance(f["st"], str) and graph_ok(f["g"]) and mol_ok(f["mol"])
            ok = ok and all(len(a) == 4 and isinstance(a[0], int) and isinstance(a[1], str) and isinstance(a[2], str) and isinstance(a[3], bool)
                            for a in f["atoms"])
        return ok
    except Exception:
        return False
